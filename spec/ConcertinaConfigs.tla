-------------------------- MODULE ConcertinaConfigs --------------------------
(***************************************************************************)
(* C14 - the bounded family of workflow configurations explored by TLC     *)
(* (used by MCConcertina and ConcertinaImpl, and exported as JSON to the   *)
(* harness, which drives the real concertina_lib.Concertina with each).    *)
(*                                                                         *)
(* "all dependency DAGs up to a size bound with all placements of          *)
(*  iteration groups and stop signals":                                    *)
(*   - n statements 1..n (the number is also the *name order*: the harness *)
(*     names statement k "a<k>", and SortActions breaks ties by name);     *)
(*   - req: every acyclic requirement relation on 1..n (Labelling = "all") *)
(*     or those whose edges all go up / all go down in name order          *)
(*     (Labelling = "updown", for the larger n);                           *)
(*   - 0..MaxGroups disjoint iteration groups, each a list of 1..MaxLen    *)
(*     distinct statements in any order, mode "diamond" (any length) or    *)
(*     "halves" (even length: first half upper, second half lower), with   *)
(*     reps in MinReps..MaxReps and with or without a stop signal;         *)
(*   - Timing: for a group with a signal, raiseAt = t > 0 means the        *)
(*     environment raises the signal while the t-th run of a member of the *)
(*     group is executing (0 = never); every t up to members x reps.       *)
(* Well-formedness (see Concertina!WellFormed): the graph with groups      *)
(* collapsed is acyclic; inside a group a member may only read earlier     *)
(* members (the declared order does not contradict the DAG).               *)
(***************************************************************************)
EXTENDS Naturals, Sequences, FiniteSets

CONSTANTS MinN, MaxN,       \* number of statements
          MinReps, MaxReps, \* declared repetitions
          MaxGroups,        \* 0..2 iteration groups
          MaxLen,           \* members per group
          Labelling,        \* "all" | "updown"
          Timing,           \* TRUE: enumerate raiseAt; FALSE: raiseAt = 0
          Shape             \* "clean" | "finding" | "all"  (see below)

CRange(s) == {s[k] : k \in DOMAIN s}
CMin(S) == CHOOSE x \in S : \A y \in S : x <= y

(* ---- requirement relations ---- *)
RECURSIVE AcyclicOn(_, _)
AcyclicOn(r, S) ==
  IF S = {} THEN TRUE
  ELSE IF \E v \in S : r[v] \cap S = {}
       THEN AcyclicOn(r, S \ {CHOOSE v \in S : r[v] \cap S = {}})
       ELSE FALSE

Reqs(n) ==
  IF Labelling = "all"
  THEN {r \in [1..n -> SUBSET (1..n)] :
          (\A a \in 1..n : a \notin r[a]) /\ AcyclicOn(r, 1..n)}
  ELSE {r \in [1..n -> SUBSET (1..n)] : \A a \in 1..n : \A b \in r[a] : b < a}
       \cup
       {r \in [1..n -> SUBSET (1..n)] : \A a \in 1..n : \A b \in r[a] : b > a}

(* ---- iteration groups ---- *)
Lists(n, L) == {s \in [1..L -> 1..n] :
                  \A x, y \in 1..L : x # y => s[x] # s[y]}
Modes(L) == IF L % 2 = 0 THEN {"halves", "diamond"} ELSE {"diamond"}
Times(L, reps, sig) == IF Timing /\ sig = 1
                       THEN 0..(L * (IF reps < 1 THEN 1 ELSE reps)) ELSE {0}

GroupsL(n, L) ==
  UNION { { [members |-> m, mode |-> md, reps |-> rp, sig |-> sg, raiseAt |-> t]
              : t \in Times(L, rp, sg) }
          : m \in Lists(n, L), md \in Modes(L),
            rp \in MinReps..MaxReps, sg \in 0..1 }
Groups(n) == UNION { GroupsL(n, L) : L \in 1..(IF MaxLen < n THEN MaxLen ELSE n) }

IterLists(n) ==
  {<<>>}
  \cup (IF MaxGroups >= 1 THEN {<<g>> : g \in Groups(n)} ELSE {})
  \cup (IF MaxGroups >= 2
        THEN {p \in Groups(n) \X Groups(n) :
                /\ CRange(p[1].members) \cap CRange(p[2].members) = {}
                /\ CMin(CRange(p[1].members)) < CMin(CRange(p[2].members))}
        ELSE {})

(* ---- structure of a configuration value c ---- *)
CIterated(c, a) == \E i \in DOMAIN c.iters : a \in CRange(c.iters[i].members)
CItOf(c, a) == CHOOSE i \in DOMAIN c.iters : a \in CRange(c.iters[i].members)
CPos(c, a) == LET m == c.iters[CItOf(c, a)].members
              IN CHOOSE j \in DOMAIN m : m[j] = a
CExternal(c, a) == c.req[a] \ (IF CIterated(c, a)
                               THEN CRange(c.iters[CItOf(c, a)].members) ELSE {})
CUnit(c, a) == IF CIterated(c, a) THEN <<"it", CItOf(c, a)>> ELSE <<"a", a>>
CUnitEdge(c, u, v) == u # v /\ \E b \in 1..c.n : CUnit(c, b) = v /\
                                 \E a \in c.req[b] : CUnit(c, a) = u
RECURSIVE CPeels(_, _)
CPeels(c, S) ==
  IF S = {} THEN TRUE
  ELSE IF \E v \in S : \A u \in S : ~CUnitEdge(c, u, v)
       THEN CPeels(c, S \ {CHOOSE v \in S : \A u \in S : ~CUnitEdge(c, u, v)})
       ELSE FALSE
ForwardInside(c) ==
  \A a \in 1..c.n : CIterated(c, a) =>
     \A b \in c.req[a] : (CIterated(c, b) /\ CItOf(c, b) = CItOf(c, a))
                            => CPos(c, b) < CPos(c, a)
CWellFormed(c) == ForwardInside(c) /\ CPeels(c, {CUnit(c, a) : a \in 1..c.n})

(***************************************************************************)
(* The shape of the listed finding F-C14-lower-half-external: a "halves"   *)
(* group in which a lower-half member reads, from outside the group,       *)
(* something that no upper-half member reads.  On such configurations the  *)
(* transcribed algorithm (and the code) may start the group before that    *)
(* input exists.  Shape = "clean" excludes exactly these, "finding" keeps  *)
(* only these, "all" keeps everything.                                     *)
(***************************************************************************)
CUpper(g) == IF g.mode = "diamond" THEN CRange(g.members)
             ELSE {g.members[k] : k \in 1..(Len(g.members) \div 2)}
CLower(g) == CRange(g.members) \ CUpper(g)
LowerHalfExternal(c) ==
  \E i \in DOMAIN c.iters :
     LET g == c.iters[i]
         upperExt == UNION {CExternal(c, u) : u \in CUpper(g)}
     IN \E l \in CLower(g) : ~(CExternal(c, l) \subseteq upperExt)

ConfigsOf(n) ==
  {c \in {[n |-> n, req |-> r, iters |-> it] : r \in Reqs(n), it \in IterLists(n)} :
     /\ CWellFormed(c)
     /\ CASE Shape = "clean"   -> ~LowerHalfExternal(c)
          [] Shape = "finding" -> LowerHalfExternal(c)
          [] OTHER             -> TRUE}

Configs == UNION {ConfigsOf(n) : n \in MinN..MaxN}
=============================================================================
