--------------------------- MODULE ConcertinaImpl ---------------------------
(***************************************************************************)
(* C14 - IMPLEMENTATION-SHAPED model: a transcription of                   *)
(*   Concertina.UnderstandIterations / SortActions / RunOneAction /        *)
(*   UpdateStateForIterativeAction / ActionIterationWantsToStopBySignal    *)
(* of common/concertina_lib.py, and the refinement                         *)
(*        ConcertinaImpl => Concertina                                     *)
(* checked by TLC over every configuration of the input file.             *)
(*                                                                         *)
(* This module carries NO verdict about the code (DESIGN.md R1): it is the *)
(* design-level argument that the algorithm meets the abstract property,   *)
(* and it predicts the exact call sequence so that a departure of the code *)
(* from the algorithm (MODEL-DRIFT) can be told from a departure from the  *)
(* property (VIOLATION, judged by ConcertinaTrace).                        *)
(*                                                                         *)
(* Environment: iteration i with a stop signal and raiseAt = t > 0 gets    *)
(* its signal file written while the t-th engine call on a member of i is  *)
(* executing, i.e. before that call's state update (EnvRaise, then RunOne).*)
(***************************************************************************)
EXTENDS ConcertinaCfg, TLC

VARIABLES ci,         \* line of the input file
          cfg,        \* its configuration (constant along a behaviour)
          toRun,      \* self.actions_to_run
          itDone,     \* self.action_iterations_complete (members only count)
          complete,   \* self.complete_actions
          wrench,     \* self.wrench_in_gears   (signals seen)
          stopped,    \* self.action_stopped
          files,      \* environment: iterations whose signal file exists
          mcalls,     \* [Iter -> Nat] engine calls on members so far
          calls,      \* [Action -> Nat] engine.Run calls  (the observable)
          log,        \* Seq of <<"run", a>> / <<"raise", i>>
          phase       \* "run" | "done" | "stuck" (SortActions assertion)

ivars == <<ci, cfg, toRun, itDone, complete, wrench, stopped, files, mcalls, calls,
           log, phase>>

IRange(s) == {s[k] : k \in DOMAIN s}
(* cfg is a function of ci: states are told apart without hashing it *)
IView == <<ci, toRun, itDone, complete, wrench, stopped, files, mcalls, calls,
           log, phase>>
c0 == cfg

(* ---------------- UnderstandIterations ---------------- *)
IIterated(c, a) == c.itof[a] # 0
IMembers(c, i) == c.iters[i].members
IUpper(c, i) == IF c.iters[i].mode = "diamond" THEN IRange(IMembers(c, i))
                ELSE {IMembers(c, i)[k] : k \in 1..(Len(IMembers(c, i)) \div 2)}
ILower(c, i) == IRange(IMembers(c, i)) \ IUpper(c, i)
(* half of an iterated action: the set of actions of its half-iteration *)
IHalf(c, a) == IF a \in IUpper(c, c.itof[a]) THEN IUpper(c, c.itof[a])
               ELSE ILower(c, c.itof[a])
IHalfRequires(c, h) == UNION {c.req[a] : a \in h}
(* half_iteration_requires after "the whole iteration starts when its first *)
(* (upper half) action starts": the upper half also waits for whatever the  *)
(* lower half needs from outside of the iteration                           *)
IHalfRequiresAll(c, i, h) ==
  IF h = IUpper(c, i)
  THEN IHalfRequires(c, h) \cup
       (IHalfRequires(c, ILower(c, i)) \ IRange(IMembers(c, i)))
  ELSE IHalfRequires(c, h)
(* self.action_requires after the propagation loop *)
ActionRequires(c, a) ==
  IF IIterated(c, a)
  THEN c.req[a] \cup (IHalfRequiresAll(c, c.itof[a], IHalf(c, a)) \ IHalf(c, a))
  ELSE c.req[a]

(* ---------------- SortActions ---------------- *)
Atamans(c) == {a \in 1..c.n :
                 ~IIterated(c, a) \/ IMembers(c, c.itof[a])[1] = a}

RECURSIVE SortedSeq(_)
SortedSeq(S) == IF S = {} THEN <<>>
                ELSE LET m == CHOOSE x \in S : \A y \in S : x <= y
                     IN <<m>> \o SortedSeq(S \ {m})

(* One pass of `for a in eligible:`; st = [toAssign, done, result, assigning] *)
RECURSIVE ForPass(_, _, _)
ForPass(c, el, st) ==
  IF el = <<>> THEN st
  ELSE
    LET a == Head(el) IN
    IF ActionRequires(c, a) \subseteq st.done
    THEN LET toA == st.toAssign \ {a}
             asg0 == IF IIterated(c, a) THEN c.itof[a] ELSE st.assigning
             asg == IF asg0 # 0 /\ (IRange(IMembers(c, asg0)) \cap toA = {})
                    THEN 0 ELSE asg0
             st2 == [toAssign |-> toA, done |-> st.done \cup {a},
                     result |-> Append(st.result, a), assigning |-> asg]
         IN IF IIterated(c, a) THEN st2              \* exit_for: break
            ELSE ForPass(c, Tail(el), st2)
    ELSE ForPass(c, Tail(el), st)

RECURSIVE SortLoop(_, _)
SortLoop(c, st) ==
  IF st.toAssign = {} THEN [result |-> st.result, stuck |-> FALSE]
  ELSE IF st.assigning # 0
  THEN LET el == SelectSeq(IMembers(c, st.assigning),
                           LAMBDA a : a \in st.toAssign)
       IN SortLoop(c, [toAssign |-> st.toAssign \ IRange(el),
                       done |-> st.done \cup IRange(el),
                       result |-> st.result \o el, assigning |-> 0])
  ELSE LET st2 == ForPass(c, SortedSeq(st.toAssign \cap Atamans(c)), st)
       IN IF Cardinality(st2.toAssign) = Cardinality(st.toAssign)
          THEN [result |-> st.result, stuck |-> TRUE]  \* assert False
          ELSE SortLoop(c, st2)

SortActions(c) == SortLoop(c, [toAssign |-> 1..c.n, done |-> {},
                               result |-> <<>>, assigning |-> 0])

(* ---------------- __init__ ---------------- *)
Init ==
  /\ ci \in DOMAIN Lines
  /\ cfg = ConfigOf(ci)
  /\ LET s == SortActions(cfg)
     IN /\ toRun = s.result
        /\ phase = IF s.stuck THEN "stuck" ELSE "run"
  /\ itDone = [a \in 1..cfg.n |-> 0]
  /\ complete = {}
  /\ wrench = {}
  /\ stopped = {}
  /\ files = {}
  /\ mcalls = [i \in DOMAIN cfg.iters |-> 0]
  /\ calls = [a \in 1..cfg.n |-> 0]
  /\ log = <<>>

(* ---------------- environment ---------------- *)
RaiseDue(i) ==
  /\ phase = "run" /\ toRun # <<>>
  /\ c0.iters[i].sig = 1 /\ c0.iters[i].raiseAt > 0 /\ i \notin files
  /\ c0.itof[Head(toRun)] = i
  /\ mcalls[i] + 1 = c0.iters[i].raiseAt
EnvRaise(i) ==
  /\ RaiseDue(i)
  /\ files' = files \cup {i}
  /\ log' = Append(log, <<"raise", i>>)
  /\ UNCHANGED <<ci, cfg, toRun, itDone, complete, wrench, stopped, mcalls, calls,
                 phase>>

(* ---------------- RunOneAction / UpdateStateForIterativeAction -------- *)
(* position where the re-queued action is inserted: after the leading run  *)
(* of actions of the same iteration                                        *)
RECURSIVE LeadLen(_, _)
LeadLen(q, i) == IF q = <<>> \/ c0.itof[Head(q)] # i THEN 0
                 ELSE 1 + LeadLen(Tail(q), i)
InsertAt(q, k, a) == SubSeq(q, 1, k) \o <<a>> \o SubSeq(q, k + 1, Len(q))

Common(a) ==
  /\ calls' = [calls EXCEPT ![a] = @ + 1]
  /\ log' = Append(log, <<"run", a>>)
  /\ UNCHANGED <<ci, cfg, files, phase>>

(* RunOneAction is called while actions_to_run is not empty; the harness's *)
(* engine writes a due signal file before the call's state update          *)
CanCall == /\ phase = "run" /\ toRun # <<>>
           /\ ~\E i \in DOMAIN c0.iters : RaiseDue(i)

RunPlainI ==
  CanCall /\
  LET a == Head(toRun) IN
  /\ ~IIterated(c0, a)
  /\ Common(a)
  /\ toRun' = Tail(toRun)
  /\ complete' = complete \cup {a}
  /\ UNCHANGED <<itDone, wrench, stopped, mcalls>>

Iterative(a) ==
  /\ IIterated(c0, a)
  /\ Common(a)
  /\ itDone' = [itDone EXCEPT ![a] = @ + 1]
  /\ mcalls' = [mcalls EXCEPT ![c0.itof[a]] = @ + 1]

RunLastI ==                   \* repetitions reached
  CanCall /\
  LET a == Head(toRun) IN
  /\ Iterative(a)
  /\ itDone[a] + 1 >= c0.iters[c0.itof[a]].reps
  /\ toRun' = Tail(toRun)
  /\ complete' = complete \cup {a}
  /\ UNCHANGED <<wrench, stopped>>

WantsToStop(i) == c0.iters[i].sig = 1 /\ (i \in wrench \/ i \in files)

RunStoppedI ==                \* ActionIterationWantsToStopBySignal
  CanCall /\
  LET a == Head(toRun) i == c0.itof[a] IN
  /\ Iterative(a)
  /\ itDone[a] + 1 < c0.iters[i].reps
  /\ WantsToStop(i)
  /\ toRun' = Tail(toRun)
  /\ complete' = complete \cup {a}
  /\ stopped' = stopped \cup {a}
  /\ wrench' = wrench \cup {i}

RunRequeueI ==                \* cycle the iteration's actions
  CanCall /\
  LET a == Head(toRun) i == c0.itof[a] rest == Tail(toRun) IN
  /\ Iterative(a)
  /\ itDone[a] + 1 < c0.iters[i].reps
  /\ ~WantsToStop(i)
  /\ toRun' = InsertAt(rest, LeadLen(rest, i), a)
  /\ UNCHANGED <<complete, wrench, stopped>>

RunOne == RunPlainI \/ RunLastI \/ RunStoppedI \/ RunRequeueI

Finish == /\ phase = "run" /\ toRun = <<>>
          /\ phase' = "done"
          /\ UNCHANGED <<ci, cfg, toRun, itDone, complete, wrench, stopped, files,
                         mcalls, calls, log>>

DoEnvRaise == \E i \in DOMAIN c0.iters : EnvRaise(i)
(* top-level disjuncts are named so that TLC -coverage counts each *)
Next == RunPlainI \/ RunLastI \/ RunStoppedI \/ RunRequeueI \/ Finish
        \/ DoEnvRaise

Spec == Init /\ [][Next]_ivars /\ WF_ivars(Next)

-----------------------------------------------------------------------------
(* Refinement. *)
Abs == INSTANCE Concertina WITH runs <- calls, finished <- complete,
                                raised <- files

AbsSafe        == Abs!SafeSpec
AbsTermination == Abs!Termination
AbsOnceEach      == Abs!OnceEach
AbsBoundedReps   == Abs!BoundedReps
AbsAfterInputs   == Abs!AfterInputs
AbsDeclaredOrder == Abs!DeclaredOrder
AbsComplete      == Abs!Complete
NotStuck         == phase # "stuck"
(* the run loop ends exactly when everything is complete *)
DoneMeansAll     == phase = "done" => complete = 1..c0.n
ImplTermination  == <>(phase = "done")
=============================================================================
