---------------------------- MODULE ConcertinaLoad ----------------------------
(***************************************************************************)
(* C14 - loading configurations written by the harness (ndjson, one        *)
(* configuration per line, file named by $C14_CONFIGS) into the record     *)
(* shape used by Concertina / ConcertinaImpl.  JSON arrays arrive as       *)
(* sequences; `req` is turned into a function to sets.                     *)
(***************************************************************************)
EXTENDS Naturals, Sequences, Json, IOUtils

LRange(s) == {s[k] : k \in DOMAIN s}
NormGroup(g) == [members |-> g.members, mode |-> g.mode, reps |-> g.reps,
                 sig |-> g.sig, raiseAt |-> g.raiseAt]
NormCfg(c) == [n |-> c.n,
               req |-> [a \in 1..c.n |-> LRange(c.req[a])],
               iters |-> [k \in DOMAIN c.iters |-> NormGroup(c.iters[k])]]
RawConfigs == ndJsonDeserialize(IOEnv.C14_CONFIGS)
=============================================================================
