--------------------------- MODULE ConcertinaTrace ---------------------------
(***************************************************************************)
(* C14 - trace specification: recorded executions of the REAL code are     *)
(* accepted or rejected by the abstract scheduler Concertina.              *)
(*                                                                         *)
(* Input ($C14_INPUT, ndjson), one recorded execution per line:            *)
(*   id   : string                                                         *)
(*   cfg  : the configuration (see ConcertinaCfg); for compiled programs   *)
(*          it is derived from the plan the compiler produced              *)
(*          (table_to_export_map, dependency_edges, iterations)            *)
(*   ev   : Seq of <<"run", a>>   the sql_runner / engine was called for   *)
(*                                statement a (in recorded order)          *)
(*              | <<"raise", i>>  the stop signal of iteration i was       *)
(*                                raised (by the harness's engine, during  *)
(*                                the call that follows in the list)       *)
(*   end  : "ok" if the run returned normally, else the exception text     *)
(*   res  : Seq of [p, multi, single]: for a request of several predicates *)
(*          the table returned for p in that request and the table         *)
(*          returned when p is requested alone ([cols, rows])              *)
(*                                                                         *)
(* One behaviour walks through all lines.  Every "run" event must be an    *)
(* enabled abstract Run(a) step, every "raise" an enabled RaiseSignal(i);  *)
(* at the end of a trace the run must have ended normally with             *)
(* finished = Action (Complete), and the tables must agree (SameTables).   *)
(* A trace that fails is abandoned at the failing event; its verdict names *)
(* the clause.  Verdicts: <<"V", ToJson([id, ok, clause, at, a, shape,     *)
(* missing])>>, one per trace; POSTCONDITION Accepted = no rejected trace. *)
(***************************************************************************)
EXTENDS Concertina, TLC, TLCExt

VARIABLE j                  \* index of the next event of trace ci

tvars == <<ci, cfg, runs, finished, raised, j>>

N    == Len(Lines)
Ev   == Lines[ci].ev
Zero(c) == [a \in 1..c.n |-> 0]
NoCfg == [n |-> 0]

TInit == /\ ci = 1 /\ j = 1
         /\ cfg = IF N >= 1 THEN ConfigOf(1) ELSE NoCfg
         /\ runs = Zero(cfg) /\ finished = {} /\ raised = {}
         /\ TLCSet(1, 0) /\ TLCSet(2, 0)
         /\ \A r \in 3..7 : TLCSet(r, 0)

Verdict(ok, clause, a, shape, missing) ==
  /\ PrintT(<<"V", ToJson([id |-> Lines[ci].id, ok |-> ok, clause |-> clause,
                           at |-> j, a |-> a, shape |-> shape,
                           missing |-> missing])>>)
  /\ TLCSet(2, TLCGet(2) + 1)
  /\ IF ok THEN TRUE ELSE TLCSet(1, TLCGet(1) + 1)

NextTrace == /\ ci' = ci + 1 /\ j' = 1
             /\ cfg' = IF ci + 1 <= N THEN ConfigOf(ci + 1) ELSE NoCfg
             /\ runs' = Zero(cfg') /\ finished' = {} /\ raised' = {}

(* Which clause of the enabling condition of Run(a) fails. *)
RunClause(a) ==
  CASE a \notin Action    -> "UnknownStatement"
    [] a \in finished     -> IF Iterated(a) THEN "BoundedReps" ELSE "OnceEach"
    [] ~InputsReady(a)    -> "AfterInputs"
    [] OTHER              -> "DeclaredOrder"
MissingInputs(a) == IF a \in Action THEN External(a) \ finished ELSE {}
(* narrow signature of the listed finding: the premature statement is a    *)
(* lower-half member and nothing it lacks is read by the upper half        *)
RunShape(a) ==
  IF a \in Action /\ a \notin finished /\ ~InputsReady(a) /\ Iterated(a)
  THEN LET g == cfg.iters[ItOf(a)]
       IN IF a \in LowerOf(g) /\ MissingInputs(a) \cap UpperExt(cfg, g) = {}
          THEN "lower-half-external" ELSE "other"
  ELSE "other"

(* which of the four abstract Run actions an accepted event was (registers *)
(* 3..6; 7 counts RaiseSignal): vacuity accounting for the evidence file   *)
Kind(a) == CASE ~Iterated(a)                    -> 3     \* RunPlain
             [] runs[a] + 1 >= Reps(ItOf(a))    -> 4     \* RunLast
             [] ItOf(a) \in raised              -> 5     \* RunStopped
             [] OTHER                           -> 6     \* RunAgain
Bump(r) == TLCSet(r, TLCGet(r) + 1)

RunEvent(a) ==
  IF a \in Action /\ CanRun(a)
  THEN Bump(Kind(a)) /\ Run(a) /\ j' = j + 1
  ELSE Verdict(FALSE, RunClause(a), a, RunShape(a), MissingInputs(a)) /\ NextTrace

RaiseEvent(i) ==
  IF i \in Iter /\ HasSig(i) /\ i \notin raised
  THEN Bump(7) /\ RaiseSignal(i) /\ j' = j + 1
  ELSE Verdict(FALSE, "RaiseSignal", i, "other", {}) /\ NextTrace

(* ---- tables ---- *)
Count(s, x) == Cardinality({k \in DOMAIN s : s[k] = x})
SameBag(s, t) == /\ Len(s) = Len(t)
                 /\ \A x \in Range(s) \cup Range(t) : Count(s, x) = Count(t, x)
SameTable(x, y) == x.cols = y.cols /\ SameBag(x.rows, y.rows)
SameTables == \A k \in DOMAIN Lines[ci].res :
                 SameTable(Lines[ci].res[k].multi, Lines[ci].res[k].single)

EndOfTrace ==
  /\ CASE Lines[ci].end # "ok" ->
            Verdict(FALSE, "Termination", 0, "other", Action \ finished)
       [] finished # Action \/ ~Complete ->
            Verdict(FALSE, "Complete", 0, "other", Action \ finished)
       [] ~SameTables ->
            Verdict(FALSE, "SameTables", 0, "other", {})
       [] OTHER -> Verdict(TRUE, "", 0, "", {})
  /\ NextTrace

TNext ==
  /\ ci <= N
  /\ IF j <= Len(Ev)
     THEN IF Ev[j][1] = "run" THEN RunEvent(Ev[j][2]) ELSE RaiseEvent(Ev[j][2])
     ELSE EndOfTrace

TSpec == TInit /\ [][TNext]_tvars

Accepted == /\ PrintT(<<"COV", ToJson([plain |-> TLCGet(3), last |-> TLCGet(4),
                                         stopped |-> TLCGet(5), again |-> TLCGet(6),
                                         raise |-> TLCGet(7), traces |-> TLCGet(2),
                                         rejected |-> TLCGet(1)])>>)
            /\ TLCGet(1) = 0 /\ TLCGet(2) = N
=============================================================================
