------------------------------- MODULE Flags -------------------------------
(***************************************************************************)
(* Flag values and the documented ${flag} parameter form (property C10).   *)
(*                                                                         *)
(* A text is a sequence of tokens: <<"l", c>> an ordinary character (code  *)
(* point c) or <<"r", f>> an occurrence of ${f}.  A program defines flags  *)
(* with @DefineFlag(name [, default]); the user may pass a value for any   *)
(* defined flag; the user's value overrides the default; a flag with       *)
(* neither stands for itself (its value is the text ${f}).  Expansion      *)
(* replaces every ${f} of a defined flag by the flag's value until nothing *)
(* changes.                                                                *)
(*                                                                         *)
(* Abstract semantics (the verdict level):                                 *)
(*   Outcome(e, text) = "diagnosed"            if a flag reachable from    *)
(*                                             the text lies on a          *)
(*                                             reference cycle             *)
(*                    = the full expansion     otherwise.                  *)
(* The state machine below performs substitution rounds.  TLC checks over  *)
(* all flag graphs (FlagNames, values of at most MaxTok tokens):           *)
(*   - acyclic: the rounds reach the full expansion in at most             *)
(*     |FlagNames| rounds, it is a fixed point, and its size is bounded;   *)
(*   - cyclic: no number of rounds removes the references to the flags on  *)
(*     the cycle, so "iterate to the fixed point" loops, grows without     *)
(*     bound, or stops with ${f} left over: termination in general         *)
(*     requires a diagnosis;                                               *)
(*   - the user's value, when present, is the one that is used.            *)
(* Each initial state is exported as a case (<<"CASE", json>>) for replay  *)
(* against the real Annotations.BuildFlagValues / UseFlagsAsParameters.    *)
(***************************************************************************)
EXTENDS FlagsSem, Json

CONSTANTS FlagNames,   \* e.g. {"a", "b", "c"}
          MaxTok,      \* maximal number of tokens in a value
          LitChars,    \* code points used for ordinary characters
          Export,      \* TRUE: print each initial state as a CASE line
          AllUserSets  \* TRUE: four sets of user-overridden flags, else two

Toks == {Lit(c) : c \in LitChars} \cup {Ref(f) : f \in FlagNames}
Values == UNION {[1..k -> Toks] : k \in 0..MaxTok}

-----------------------------------------------------------------------------
(* The state machine.                                                      *)
VARIABLES def, usr, text0, text, round, status
vars == <<def, usr, text0, text, round, status>>

No == [has |-> FALSE, v |-> <<>>]
Yes(v) == [has |-> TRUE, v |-> v]

(* Overridden flags get a decoy default that would blow up if it were      *)
(* used: ${f}${f}.                                                         *)
Decoy(f) == <<Ref(f), Ref(f)>>
UserSets == IF AllUserSets THEN {{}, {"a"}, FlagNames \ {"a"}, FlagNames}
            ELSE {{}, FlagNames}
Texts == {<<Ref("a")>>}

(* A flag whose chosen value is ${f} itself is exported as a flag declared  *)
(* without a default (the two are the same effective configuration).       *)
Init ==
  /\ \E g \in [FlagNames -> Values], U \in UserSets :
       /\ usr = [f \in FlagNames |-> IF f \in U THEN Yes(g[f]) ELSE No]
       /\ def = [f \in FlagNames |-> IF f \in U THEN Yes(Decoy(f))
                                     ELSE IF g[f] = <<Ref(f)>> THEN No ELSE Yes(g[f])]
  /\ text0 \in Texts
  /\ text = text0
  /\ round = 0
  /\ status = "new"

E == Eff(def, usr)

(* Size bound of any acyclic expansion: the text has at most 3 tokens and  *)
(* each level multiplies by at most MaxTok.                                *)
RECURSIVE Pow(_, _)
Pow(b, n) == IF n = 0 THEN 1 ELSE b * Pow(b, n - 1)
SizeBound == 3 * Pow(IF MaxTok = 0 THEN 1 ELSE MaxTok, Cardinality(FlagNames))

(* Prediction used only for scheduling the replay (never for a verdict):   *)
(* does iterating rounds make the text grow geometrically?  (Such a case   *)
(* costs the unrepaired implementation seconds and a gigabyte, so only a   *)
(* sample of them is replayed.)  LenAfter stops counting beyond 64 tokens. *)
RECURSIVE LenAfter(_, _, _)
LenAfter(e, t, n) == IF n = 0 \/ Len(t) > 64 THEN Len(t)
                     ELSE LenAfter(e, SubstituteRound(e, t), n - 1)
Grows(e, t) == LET l4 == LenAfter(e, t, 4)
                   l8 == LenAfter(e, t, 8)
               IN l8 > 64 \/ (l8 >= 4 /\ l8 >= 2 * l4)

CaseJson ==
  ToJson([def |-> def, usr |-> usr, text |-> text0,
          cyclic |-> Cyclic(E, text0),
          grows |-> Cyclic(E, text0) /\ Grows(E, text0)])

Start ==
  /\ status = "new"
  /\ IF Export THEN PrintT(<<"CASE", CaseJson>>) ELSE TRUE
  /\ status' = IF Cyclic(E, text0) THEN "diagnosed" ELSE "running"
  /\ UNCHANGED <<def, usr, text0, text, round>>

Round ==
  /\ status = "running"
  /\ LET t == SubstituteRound(E, text) IN
       IF t = text THEN status' = "done" /\ UNCHANGED <<text, round>>
       ELSE text' = t /\ round' = round + 1 /\ UNCHANGED status
  /\ UNCHANGED <<def, usr, text0>>

Next == Start \/ Round
Spec == Init /\ [][Next]_vars

-----------------------------------------------------------------------------
(* Properties checked by TLC.                                              *)
TypeOK == status \in {"new", "running", "done", "diagnosed"}

AcyclicReachesExpansion ==
  status = "done" => /\ text = Expand(E, text0)
                     /\ text = Outcome(E, text0).text
                     /\ round <= Cardinality(FlagNames)
                     /\ SubstituteRound(E, text) = text

Bounded == status \in {"running", "done"} => /\ Len(text) <= SizeBound
                                              /\ round <= Cardinality(FlagNames)

(* A cyclic configuration can never be fully expanded: after any number of *)
(* rounds (here: ProbeRounds) the text still refers to a flag on a cycle.  *)
(* So the rounds either never stop (oscillate or grow without bound) or    *)
(* stop at a fixed point that still contains ${f}; termination in general  *)
(* requires a diagnosis.                                                   *)
ProbeRounds == 4
RECURSIVE StaysCyclic(_, _, _)
StaysCyclic(e, t, n) == /\ Cyclic(e, t)
                        /\ (n = 0 \/ StaysCyclic(e, SubstituteRound(e, t), n - 1))
CyclicNeedsDiagnosis ==
  status = "diagnosed" => StaysCyclic(E, text0, ProbeRounds)

UserOverrides == \A f \in FlagNames : usr[f].has => E[f] = usr[f].v

(* Termination of the specified machine, as an invariant: a running        *)
(* configuration has used at most |FlagNames| rounds, and when it has used *)
(* that many the next step finds the fixed point.                          *)
Terminates ==
  status = "running" =>
    /\ round <= Cardinality(FlagNames)
    /\ (round = Cardinality(FlagNames) => SubstituteRound(E, text) = text)
=============================================================================
