SPECIFICATION Spec
CONSTANTS
  FlagNames = {"a", "b", "c"}
  MaxTok = 2
  LitChars = {}
  AllUserSets = FALSE
  Export = TRUE
INVARIANT TypeOK
INVARIANT AcyclicReachesExpansion
INVARIANT Bounded
INVARIANT CyclicNeedsDiagnosis
INVARIANT UserOverrides
INVARIANT Terminates
CHECK_DEADLOCK FALSE
