------------------------------ MODULE FlagsSem ------------------------------
(***************************************************************************)
(* Semantics of flag values and of the documented ${flag} parameter form   *)
(* (property C10); see Flags.tla for the model that is checked over all    *)
(* small flag graphs and FlagsTrace.tla for the validation of what the     *)
(* real code did.                                                          *)
(*                                                                         *)
(* A text is a sequence of tokens: <<"l", c>> an ordinary character (code  *)
(* point c) or <<"r", f>> an occurrence of ${f}.  e maps every DEFINED     *)
(* flag to its effective value; a reference to an undefined name is an     *)
(* ordinary piece of text.                                                 *)
(***************************************************************************)
EXTENDS Naturals, Sequences, FiniteSets, TLC

Lit(c) == <<"l", c>>
Ref(f) == <<"r", f>>
IsRef(t) == t[1] = "r"
RECURSIVE FlatF(_)
FlatF(ss) == IF ss = <<>> THEN <<>> ELSE Head(ss) \o FlatF(Tail(ss))

(* Effective values: user value if given, else default if given, else the  *)
(* flag stands for itself.  def / usr map a flag to [has, v].              *)
Eff(def, usr) ==
  [f \in DOMAIN def |-> IF usr[f].has THEN usr[f].v
                       ELSE IF def[f].has THEN def[f].v ELSE <<Ref(f)>>]

Unset(e, f) == e[f] = <<Ref(f)>>

(* One substitution round (all occurrences, simultaneously).               *)
SubstituteRound(e, text) ==
  FlatF([i \in 1..Len(text) |->
           IF IsRef(text[i]) /\ text[i][2] \in DOMAIN e
           THEN e[text[i][2]] ELSE <<text[i]>>])

RefsOf(text) == {text[i][2] : i \in {j \in 1..Len(text) : IsRef(text[j])}}
Deps(e, f) == IF Unset(e, f) THEN {} ELSE RefsOf(e[f]) \cap DOMAIN e

RECURSIVE Closure(_, _)
Closure(e, S) == LET T == S \cup UNION {Deps(e, f) : f \in S}
                 IN IF T = S THEN S ELSE Closure(e, T)
Reach(e, text) == Closure(e, RefsOf(text) \cap DOMAIN e)
OnCycle(e, f) == f \in Closure(e, Deps(e, f))
Cyclic(e, text) == \E f \in Reach(e, text) : OnCycle(e, f)

(* Full expansion, defined by structural recursion (well founded exactly   *)
(* when ~Cyclic(e, text)).                                                 *)
RECURSIVE Expand(_, _)
Expand(e, text) ==
  FlatF([i \in 1..Len(text) |->
           LET t == text[i] IN
             IF IsRef(t) /\ t[2] \in DOMAIN e /\ ~Unset(e, t[2])
             THEN Expand(e, e[t[2]]) ELSE <<t>>])

Outcome(e, text) ==
  IF Cyclic(e, text) THEN [kind |-> "diagnosed", text |-> <<>>]
  ELSE [kind |-> "text", text |-> Expand(e, text)]

(* Materialisation as code points: ${f} is  $ { f } .  Flag names are one  *)
(* lower-case letter in the models; NameCp maps them to code points.       *)
NameCp(f) == CASE f = "a" -> 97 [] f = "b" -> 98 [] f = "c" -> 99
Mat(text) == FlatF([i \in 1..Len(text) |->
                      IF IsRef(text[i]) THEN <<36, 123, NameCp(text[i][2]), 125>>
                      ELSE <<text[i][2]>>])


(* Reading a text back into tokens: $ { x } with x a one-letter flag name  *)
(* of the models is a reference, everything else ordinary characters.      *)
RECURSIVE Tokenise(_)
Tokenise(cps) ==
  IF cps = <<>> THEN <<>>
  ELSE IF Len(cps) >= 4 /\ cps[1] = 36 /\ cps[2] = 123 /\ cps[3] \in {97, 98, 99} /\ cps[4] = 125
    THEN <<Ref(CASE cps[3] = 97 -> "a" [] cps[3] = 98 -> "b" [] cps[3] = 99 -> "c")>>
         \o Tokenise(SubSeq(cps, 5, Len(cps)))
  ELSE <<Lit(cps[1])>> \o Tokenise(Tail(cps))

(* One flag at a time (the order in which an implementation visits the     *)
(* flags within a round is its own business).                              *)
ReplaceOne(e, f, t) ==
  FlatF([i \in 1..Len(t) |-> IF t[i] = Ref(f) THEN e[f] ELSE <<t[i]>>])
RECURSIVE SeqRound(_, _, _)
SeqRound(e, order, t) ==
  IF order = <<>> THEN t
  ELSE SeqRound(e, Tail(order), ReplaceOne(e, Head(order), t))
Orders(S) == {o \in [1..Cardinality(S) -> S] :
                \A i, j \in 1..Cardinality(S) : i # j => o[i] # o[j]}

(* Nothing left to do: a round (simultaneous, or sequential in some order  *)
(* of the flags) leaves the text unchanged.                                *)
Stable(e, t) == \/ SubstituteRound(e, t) = t
                \/ \E o \in Orders(DOMAIN e) : SeqRound(e, o, t) = t

(* What an implementation may do (the verdict used by FlagsTrace):         *)
(*   acyclic  -> exactly the full expansion (or a diagnosis when some flag  *)
(*               the text does not use is recursive);                      *)
(*   cyclic   -> a diagnosis, or stopping at a text on which expansion has *)
(*               nothing left to do (the property only asks that           *)
(*               expansion terminates; there is no "full expansion");      *)
(*   never    -> running out of memory / time, or any other text.          *)
AnyCycle(e) == \E f \in DOMAIN e : OnCycle(e, f)
Allowed(e, t0, kind, t) ==
  IF ~Cyclic(e, t0) THEN \/ kind = "text" /\ t = Expand(e, t0)
                         \/ kind = "diagnosed" /\ AnyCycle(e)
  ELSE kind = "diagnosed" \/ (kind = "text" /\ Stable(e, t))

=============================================================================
