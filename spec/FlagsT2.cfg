SPECIFICATION Spec
CONSTANTS
  FlagNames = {"a", "b"}
  MaxTok = 3
  LitChars = {39, 120}
  AllUserSets = TRUE
  Export = TRUE
INVARIANT TypeOK
INVARIANT AcyclicReachesExpansion
INVARIANT Bounded
INVARIANT CyclicNeedsDiagnosis
INVARIANT UserOverrides
INVARIANT Terminates
CHECK_DEADLOCK FALSE
