----------------------------- MODULE FlagsTrace -----------------------------
(***************************************************************************)
(* Trace validation for the flag part of C10.  Each record is what the     *)
(* REAL code did for one flag configuration enumerated by Flags.tla:       *)
(*   [id, def, usr, text, via, level, d, status, out]                      *)
(*  def/usr  the configuration as exported by TLC (echoed by the harness): *)
(*           flag -> [has, v]; the effective values are computed HERE, so  *)
(*           the override order of the implementation is judged, not       *)
(*           assumed;                                                      *)
(*  via      "param": the text (tokens `text`) was written with ${f}       *)
(*           occurrences and expanded; "flagvalue": FlagValue("f") with    *)
(*           text = <<Ref(f)>>;                                            *)
(*  level    "unit": Annotations(...).flag_values + UseFlagsAsParameters   *)
(*           (+ QL.ConvertToSql of FlagValue in dialect d: `out` is then   *)
(*           the emitted SQL literal, decoded by StrLit);                  *)
(*           "pipe": whole pipeline on SQLite, `out` = returned string;    *)
(*  status   "ok" | "diagnosed" (RuleCompileException) | "memory" |        *)
(*           "timeout" | "sqlerror" | "internal".                          *)
(* Verdict: FlagsSem!Allowed.                                              *)
(***************************************************************************)
EXTENDS FlagsSem, StrLit, Json, IOUtils, TLCExt

All == ndJsonDeserialize(IOEnv.TRACE_FILE)
NRec == Len(All)

Why(r) ==
  LET e == Eff(r.def, r.usr)
      lit == r.via = "flagvalue" /\ r.level = "unit" /\ r.status = "ok"
      val == IF lit THEN Decode(r.d, r.out) ELSE r.out
      kind == IF r.status = "ok" THEN "text" ELSE r.status
  IN IF lit /\ ~IsOneLiteral(r.d, r.out) THEN "not-one-literal-" \o Lex(r.d, r.out).why
     ELSE IF Allowed(e, r.text, kind, Tokenise(val)) THEN "ok"
     ELSE IF Cyclic(e, r.text) THEN "cyclic-" \o r.status
     ELSE IF r.status # "ok" THEN "acyclic-" \o r.status
     ELSE "wrong-expansion"

VARIABLE i
Init == i = 1 /\ TLCSet(1, 0)
Next ==
  /\ i <= NRec
  /\ LET r == All[i]
         w == Why(r)
     IN IF w = "ok" THEN TRUE
        ELSE /\ PrintT(<<"V", ToJson([id |-> r.id, why |-> w,
                                      exp |-> IF Cyclic(Eff(r.def, r.usr), r.text) THEN <<>>
                                              ELSE Mat(Expand(Eff(r.def, r.usr), r.text))])>>)
             /\ TLCSet(1, TLCGet(1) + 1)
  /\ i' = i + 1
Spec == Init /\ [][Next]_i

Idx(p) == {j \in 1..NRec : All[j].via = p}
Summary ==
  [records |-> NRec, bad |-> TLCGet(1),
   cyclic |-> Cardinality({j \in 1..NRec : Cyclic(Eff(All[j].def, All[j].usr), All[j].text)}),
   overridden |-> Cardinality({j \in 1..NRec : \E f \in DOMAIN All[j].usr : All[j].usr[f].has}),
   param |-> Cardinality(Idx("param")), flagvalue |-> Cardinality(Idx("flagvalue"))]

Accepted ==
  /\ PrintT(<<"S", ToJson(Summary)>>)
  /\ TLCGet("stats").diameter - 1 = NRec
=============================================================================
