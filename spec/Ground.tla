------------------------------- MODULE Ground -------------------------------
(***************************************************************************)
(* Property C17: grounded predicates are materialised faithfully and       *)
(* re-running is idempotent (DESIGN.md A.7).                               *)
(*                                                                         *)
(* State: the persistent attached SQLite files together (`file`: a bag of  *)
(* rows per "alias.table", alias = the name a file is attached under), the  *)
(* rows returned by the last run, the program version in force.  The       *)
(* ':memory:' dataset of A.7 is not modelled: it dies with every run and    *)
(* the property quantifies over runs against persistent files.              *)
(*                                                                         *)
(* Actions (the environment of `logica.py <file> run <p>`):                *)
(*   Run(p)            p is any predicate of the version in force;         *)
(*                     GroundSem!RunEffect - every grounded predicate      *)
(*                     below p is rewritten in dependency order reading    *)
(*                     the already written tables FROM THE FILE, p itself   *)
(*                     is only printed, also when p is grounded            *)
(*   PrePopulate(t, b) somebody left a (stale) table t in the file         *)
(*   SwitchVersion     the program text is edited between runs             *)
(*                                                                         *)
(* `last` is a history variable: the action that led here, the version it   *)
(* ran in, the state before it and the action before that.  The invariants  *)
(* are stated with it.                                                     *)
(***************************************************************************)
EXTENDS GroundSem

CONSTANTS Versions,      \* Seq(version), see GroundSem
          Runnable,      \* predicates the user may ask for (defined in every version)
          StaleTables,   \* table names PrePopulate may write
          StaleBag(_),   \* the stale bag left under a table name
          MaxSteps       \* bound on the number of actions (histories explored)

VARIABLES file, out, ver, last, steps

vars == <<file, out, ver, last, steps>>

NoAct == <<"none", "", 0>>
PV == [k \in 1..Len(Versions) |-> Prep(Versions[k])]    \* constant: evaluated once
V == PV[ver]

Init ==
  /\ file = EmptyFile
  /\ out = <<>>
  /\ ver = 1
  /\ last = [act |-> NoAct, before |-> [file |-> EmptyFile, out |-> <<>>], prev |-> NoAct]
  /\ steps = 0

Step(act) ==
  /\ steps < MaxSteps
  /\ steps' = steps + 1
  /\ last' = [act |-> act, before |-> [file |-> file, out |-> out], prev |-> last.act]

Run(p) ==
  /\ Step(<<"Run", p, ver>>)
  /\ LET r == RunEffect(V, p, file, {})
     IN file' = r.file /\ out' = r.out
  /\ UNCHANGED ver

(* The five kinds of step the property names, as separate actions so that  *)
(* TLC's coverage shows each of them was taken.                            *)
RunDependant(p)   == p \notin GPreds(V) /\ GDeps(V, p) # {} /\ last.act # <<"Run", p, ver>> /\ Run(p)
RunPlain(p)       == p \notin GPreds(V) /\ GDeps(V, p) = {} /\ last.act # <<"Run", p, ver>> /\ Run(p)
RunGrounded(p)    == p \in GPreds(V) /\ last.act # <<"Run", p, ver>> /\ Run(p)
RunAgain(p)       == last.act = <<"Run", p, ver>> /\ Run(p)

PrePopulate(t) ==
  /\ Step(<<"Pre", t, ver>>)
  /\ file' = PrePopulateEffect(file, t, StaleBag(t))
  /\ UNCHANGED <<out, ver>>

SwitchVersion ==
  /\ Len(Versions) > 1
  /\ Step(<<"Switch", "", (ver % Len(Versions)) + 1>>)
  /\ ver' = (ver % Len(Versions)) + 1
  /\ UNCHANGED <<file, out>>

NRunDependant == \E p \in Runnable : RunDependant(p)
NRunPlain     == \E p \in Runnable : RunPlain(p)
NRunGrounded  == \E p \in Runnable : RunGrounded(p)
NRunAgain     == \E p \in Runnable : RunAgain(p)
NPrePopulate  == \E t \in StaleTables : PrePopulate(t)

Next ==
  \/ NRunDependant \/ NRunPlain \/ NRunGrounded \/ NRunAgain
  \/ NPrePopulate
  \/ SwitchVersion

Spec == Init /\ [][Next]_vars

-----------------------------------------------------------------------------
(* The denoted bags of the version an action ran in: LSem!Den evaluates     *)
(* every predicate from the rules alone - no file, no annotations.          *)
DenAll == [k \in 1..Len(Versions) |-> Den(Versions[k].prog)]   \* constant: evaluated once
DenOf(k) == DenAll[k]

LastIsRun == last.act[1] = "Run"
LastP == last.act[2]
LastV == PV[last.act[3]]

(* After Run(p): the table of every grounded predicate below p holds        *)
(* exactly the bag that predicate denotes, and the returned rows are the    *)
(* bag p denotes - whatever was in the file before (stale tables, tables    *)
(* of another version).                                                    *)
GroundedFaithful ==
  LastIsRun =>
    /\ \A q \in GDeps(LastV, LastP) :
         /\ TableOf(LastV, q) \in DOMAIN file
         /\ SameBag(file[TableOf(LastV, q)], DenOf(last.act[3])[q])
    /\ SameBag(out, DenOf(last.act[3])[LastP])

(* ... and dependants read that table: the relational reading used to      *)
(* judge recorded runs holds of the model's own runs.                      *)
DependantsReadTables ==
  LastIsRun => LegalRun(LastV, LastP, last.before.file, file, out, {})

(* Run(p); Run(p) (same version, nothing in between): the second run       *)
(* leaves the file and the returned rows as the first left them.           *)
Idempotent ==
  (LastIsRun /\ last.prev = last.act) =>
     SameFile(file, last.before.file) /\ SameBag(out, last.before.out)

(* Asking for a grounded predicate prints it without writing its table.    *)
PrintDoesNotWrite ==
  (LastIsRun /\ LastP \in GPreds(LastV)) =>
     LET t == TableOf(LastV, LastP)
     IN IF t \in DOMAIN last.before.file
        THEN t \in DOMAIN file /\ SameBag(file[t], last.before.file[t])
        ELSE t \notin DOMAIN file

(* Nothing but the tables of the grounded predicates below p changes. *)
OnlyDependenciesWritten ==
  LastIsRun =>
    \A t \in (DOMAIN file \cup DOMAIN last.before.file) \ WrittenTables(LastV, LastP) :
       t \in DOMAIN file /\ t \in DOMAIN last.before.file
       /\ SameBag(file[t], last.before.file[t])

=============================================================================
