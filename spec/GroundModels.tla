---------------------------- MODULE GroundModels ----------------------------
(***************************************************************************)
(* The concrete programs Ground.tla is instantiated over (TLC needs        *)
(* concrete rules to evaluate LSem!Den).  Each family is a small program   *)
(* in two versions with one or two grounded intermediates.  The harness    *)
(* gets these very records from TLC (MCGround prints them as JSON) and     *)
(* renders them to Logica text with harness/ir.py; nothing about them is   *)
(* defined on the Python side.                                             *)
(*                                                                         *)
(* A version: [prog, attached, dataset, grounded] (see GroundSem); stale    *)
(* tables are named "alias.name" like the keys of Ground's `file`.         *)
(* Shapes kept out on purpose (known engine deviations recorded for C02):  *)
(* aggregation over nothing, nulls, zero-key aggregation over an empty     *)
(* body.  List-valued aggregates are kept out as well so that every bag is *)
(* a plain multiset of scalar rows.                                        *)
(***************************************************************************)
EXTENDS LValues

Vr(x) == [k |-> "var", name |-> x]
Nm(i) == [k |-> "lit", v |-> <<"n", i>>]
St(cs) == [k |-> "lit", v |-> <<"s", cs>>]
Bin(op, a, b) == [k |-> "op", op |-> op, args |-> <<a, b>>]
Ar(f, e) == [f |-> f, e |-> e]
At(p, args) == [k |-> "atom", p |-> p, args |-> args]
Cm(e) == [k |-> "cmp", e |-> e]
Un(l, r) == [k |-> "unify", l |-> l, r |-> r]
Alt(alts) == [k |-> "or", alts |-> alts]
Hd(f, e) == [f |-> f, e |-> e, agg |-> ""]
HdAgg(f, op, e) == [f |-> f, e |-> e, agg |-> op]
Rl(head, body) == [head |-> head, distinct |-> FALSE, body |-> body]
RlD(head, body) == [head |-> head, distinct |-> TRUE, body |-> body]
Fact1(e) == Rl(<<Hd("col0", e)>>, <<>>)
Pd(name, rules) == [name |-> name, rules |-> rules, inline |-> FALSE,
                    order |-> <<>>, limit |-> -1]
Pg(preds) == [preds |-> preds, rec |-> <<>>, makes |-> <<>>]
Gr(p, t) == [p |-> p, t |-> t]       \* t: "" (default dataset, table p) or "alias.name"
Ver(prog, attached, dataset, grounded) ==
  [prog |-> prog, attached |-> attached, dataset |-> dataset, grounded |-> grounded]
Fact2(a, b) == Rl(<<Hd("col0", a), Hd("col1", b)>>, <<>>)
PdOL(name, rules, order, limit) == [name |-> name, rules |-> rules, inline |-> FALSE,
                                    order |-> order, limit |-> limit]
Asc(f) == [f |-> f, desc |-> FALSE]
Desc(f) == [f |-> f, desc |-> TRUE]
Stale(t, bag) == [t |-> t, bag |-> bag]

\* code points
mene == <<109, 101, 110, 101>>
tekel == <<116, 101, 107, 101, 108>>
upharsin == <<117, 112, 104, 97, 114, 115, 105, 110>>
peres == <<112, 101, 114, 101, 115>>
stale == <<115, 116, 97, 108, 101>>
sx == <<120>>
sy == <<121>>
sz == <<122>>

-----------------------------------------------------------------------------
(* Family 1: the example of docs/learn/logica.md "Writing to database".    *)
(*   @AttachDatabase("logica_home", "wall.db");  @Ground(T);               *)
(*   T("mene"); T("mene"); T("tekel"); T("upharsin");  S() += 1 :- T();     *)
(* Version 2 adds a fact.                                                  *)
F1T(words) == Pd("T", [i \in 1..Len(words) |-> Fact1(St(words[i]))])
F1S == Pd("S", <<RlD(<<HdAgg("logica_value", "Sum", Nm(1))>>, <<At("T", <<>>)>>)>>)
Family1 ==
  [name |-> "docs_wall",
   versions |-> << Ver(Pg(<<F1T(<<mene, mene, tekel, upharsin>>), F1S>>),
                       <<"logica_home">>, "", <<Gr("T", "")>>),
                   Ver(Pg(<<F1T(<<mene, mene, tekel, upharsin, peres>>), F1S>>),
                       <<"logica_home">>, "", <<Gr("T", "")>>) >>,
   runnable |-> <<"S", "T">>,
   stale |-> <<Stale("logica_home.T", <<[col0 |-> <<"s", stale>>]>>),
               Stale("logica_home.Other", <<[k |-> <<"n", 7>>]>>)>>]

(* Family 2: a chain of two grounded predicates over a multiset.           *)
(*   E(1); E(2); E(2);  @Ground(P); @Ground(Q);                            *)
(*   P(x) :- E(x);  Q(x + 1) :- P(x);  R(x) :- Q(x), P(x);                 *)
(* Version 2: other facts, and Q is no longer grounded (its table stays).  *)
F2E(ns) == Pd("E", [i \in 1..Len(ns) |-> Fact1(Nm(ns[i]))])
F2P == Pd("P", <<Rl(<<Hd("col0", Vr("x"))>>, <<At("E", <<Ar("col0", Vr("x"))>>)>>)>>)
F2Q == Pd("Q", <<Rl(<<Hd("col0", Bin("+", Vr("x"), Nm(1)))>>,
                    <<At("P", <<Ar("col0", Vr("x"))>>)>>)>>)
F2R == Pd("R", <<Rl(<<Hd("col0", Vr("x"))>>,
                    <<At("Q", <<Ar("col0", Vr("x"))>>), At("P", <<Ar("col0", Vr("x"))>>)>>)>>)
Family2 ==
  [name |-> "chain",
   versions |-> << Ver(Pg(<<F2E(<<1, 2, 2>>), F2P, F2Q, F2R>>),
                       <<"logica_test">>, "", <<Gr("P", ""), Gr("Q", "")>>),
                   Ver(Pg(<<F2E(<<3, 4, 4, 5>>), F2P, F2Q, F2R>>),
                       <<"logica_test">>, "", <<Gr("P", "")>>) >>,
   runnable |-> <<"R", "Q", "P">>,
   stale |-> <<Stale("logica_test.P", <<[col0 |-> <<"n", 7>>], [col0 |-> <<"n", 8>>]>>),
               Stale("logica_test.Q", <<[col0 |-> <<"n", 8>>]>>),
               Stale("logica_test.Other", <<[k |-> <<"n", 7>>]>>)>>]

(* Family 3: two independent grounded predicates with named columns, one   *)
(* under an explicit table name, read through an ungrounded middle.        *)
(*   F(name: "x", w: 1); F(name: "x", w: 2); F(name: "y", w: 5);           *)
(*   @Ground(Tot, "logica_test.totals"); @Ground(Big);                     *)
(*   Tot(name:, total? += w) distinct :- F(name:, w:);                     *)
(*   Big(name:) :- F(name:, w:), w > 1;                                    *)
(*   M(name:, total:) :- Tot(name:, total:), Big(name:);                   *)
(*   Top(name:) :- M(name:, total:), total > 2;                            *)
(*   OnlyBig(name:) distinct :- Big(name:);                                *)
(* Version 2 has one more fact (the totals change).                        *)
F3Fact(n, w) == Rl(<<Hd("name", St(n)), Hd("w", Nm(w))>>, <<>>)
F3F(fs) == Pd("F", [i \in 1..Len(fs) |-> F3Fact(fs[i][1], fs[i][2])])
F3Tot == Pd("Tot", <<RlD(<<Hd("name", Vr("name")), HdAgg("total", "Sum", Vr("w"))>>,
                         <<At("F", <<Ar("name", Vr("name")), Ar("w", Vr("w"))>>)>>)>>)
F3Big == Pd("Big", <<Rl(<<Hd("name", Vr("name"))>>,
                        <<At("F", <<Ar("name", Vr("name")), Ar("w", Vr("w"))>>),
                          Cm(Bin(">", Vr("w"), Nm(1)))>>)>>)
F3M == Pd("M", <<Rl(<<Hd("name", Vr("name")), Hd("total", Vr("total"))>>,
                    <<At("Tot", <<Ar("name", Vr("name")), Ar("total", Vr("total"))>>),
                      At("Big", <<Ar("name", Vr("name"))>>)>>)>>)
F3Top == Pd("Top", <<Rl(<<Hd("name", Vr("name"))>>,
                        <<At("M", <<Ar("name", Vr("name")), Ar("total", Vr("total"))>>),
                          Cm(Bin(">", Vr("total"), Nm(2)))>>)>>)
F3Only == Pd("OnlyBig", <<RlD(<<Hd("name", Vr("name"))>>,
                              <<At("Big", <<Ar("name", Vr("name"))>>)>>)>>)
F3Prog(fs) == Pg(<<F3F(fs), F3Tot, F3Big, F3M, F3Top, F3Only>>)
Family3 ==
  [name |-> "independent_named",
   versions |-> << Ver(F3Prog(<< <<sx, 1>>, <<sx, 2>>, <<sy, 5>> >>), <<"logica_test">>, "",
                       <<Gr("Tot", "logica_test.totals"), Gr("Big", "")>>),
                   Ver(F3Prog(<< <<sx, 1>>, <<sx, 2>>, <<sy, 5>>, <<sz, 2>>, <<sz, 2>> >>),
                       <<"logica_test">>, "",
                       <<Gr("Tot", "logica_test.totals"), Gr("Big", "")>>) >>,
   runnable |-> <<"Top", "OnlyBig", "Tot">>,
   stale |-> <<Stale("logica_test.totals", <<[name |-> <<"s", stale>>, total |-> <<"n", 99>>]>>),
               Stale("logica_test.Big", <<[name |-> <<"s", sx>>], [name |-> <<"s", stale>>]>>),
               Stale("logica_test.Other", <<[k |-> <<"n", 7>>]>>)>>]

(* Family 4: a grounded predicate below another one through an ungrounded  *)
(* middle, read again through a disjunction; the attach form of the docs.  *)
(*   N(1); N(2); N(3);  @Ground(A); @Ground(B);                            *)
(*   A(x) :- N(x), x > 1;  Mid(x, y) :- A(x), y == x * 2;  B(y) :- Mid(x, y); *)
(*   Z(x) :- B(x) | A(x);                                                  *)
(* Version 2: A filters x > 2 and is no longer grounded, B still is.       *)
F4N == Pd("N", <<Fact1(Nm(1)), Fact1(Nm(2)), Fact1(Nm(3))>>)
F4A(lo) == Pd("A", <<Rl(<<Hd("col0", Vr("x"))>>,
                        <<At("N", <<Ar("col0", Vr("x"))>>), Cm(Bin(">", Vr("x"), Nm(lo)))>>)>>)
F4Mid == Pd("Mid", <<Rl(<<Hd("col0", Vr("x")), Hd("col1", Vr("y"))>>,
                        <<At("A", <<Ar("col0", Vr("x"))>>),
                          Un(Vr("y"), Bin("*", Vr("x"), Nm(2)))>>)>>)
F4B == Pd("B", <<Rl(<<Hd("col0", Vr("y"))>>,
                    <<At("Mid", <<Ar("col0", Vr("x")), Ar("col1", Vr("y"))>>)>>)>>)
F4Z == Pd("Z", <<Rl(<<Hd("col0", Vr("x"))>>,
                    <<Alt(<< <<At("B", <<Ar("col0", Vr("x"))>>)>>,
                             <<At("A", <<Ar("col0", Vr("x"))>>)>> >>)>>)>>)
Family4 ==
  [name |-> "through_middle",
   versions |-> << Ver(Pg(<<F4N, F4A(1), F4Mid, F4B, F4Z>>), <<"logica_home">>, "",
                       <<Gr("A", ""), Gr("B", "")>>),
                   Ver(Pg(<<F4N, F4A(2), F4Mid, F4B, F4Z>>), <<"logica_home">>, "",
                       <<Gr("B", "")>>) >>,
   runnable |-> <<"Z", "B", "A">>,
   stale |-> <<Stale("logica_home.A", <<[col0 |-> <<"n", 7>>]>>),
               Stale("logica_home.B", <<[col0 |-> <<"n", 2>>], [col0 |-> <<"n", 2>>]>>),
               Stale("logica_home.Other", <<[k |-> <<"n", 7>>]>>)>>]

(* Family 5: grounded predicates that are ordered and limited - one given  *)
(* by several rules (UNION ALL), one by a single rule.  The order is total *)
(* (all columns), and in both the first rows in rule order are NOT the     *)
(* rows the order selects.                                                 *)
(*   A("b", 5); A("a", 1); B("c", 3); B("d", 9);                           *)
(*   @Ground(Top); @OrderBy(Top, "col1 desc", "col0"); @Limit(Top, 2);     *)
(*   Top(n, v) :- A(n, v);  Top(n, v) :- B(n, v);                          *)
(*   @Ground(Low); @OrderBy(Low, "col1", "col0"); @Limit(Low, 1);          *)
(*   Low(n, v) :- A(n, v);                                                 *)
(*   Report(n) :- Top(n, v);   Span(n, m) :- Top(n, v), Low(m, w);         *)
(* Version 2: B("d", 0) instead of B("d", 9), one more A.                  *)
sa == <<97>>
sb == <<98>>
sc == <<99>>
sd == <<100>>
F5Facts(name, fs) == Pd(name, [i \in 1..Len(fs) |-> Fact2(St(fs[i][1]), Nm(fs[i][2]))])
F5Copy(name, from) == Rl(<<Hd("col0", Vr("n")), Hd("col1", Vr("v"))>>,
                         <<At(from, <<Ar("col0", Vr("n")), Ar("col1", Vr("v"))>>)>>)
F5Top == PdOL("Top", <<F5Copy("Top", "A"), F5Copy("Top", "B")>>, <<Desc("col1"), Asc("col0")>>, 2)
F5Low == PdOL("Low", <<F5Copy("Low", "A")>>, <<Asc("col1"), Asc("col0")>>, 1)
F5Report == Pd("Report", <<Rl(<<Hd("col0", Vr("n"))>>,
                              <<At("Top", <<Ar("col0", Vr("n")), Ar("col1", Vr("v"))>>)>>)>>)
F5Span == Pd("Span", <<Rl(<<Hd("col0", Vr("n")), Hd("col1", Vr("m"))>>,
                          <<At("Top", <<Ar("col0", Vr("n")), Ar("col1", Vr("v"))>>),
                            At("Low", <<Ar("col0", Vr("m")), Ar("col1", Vr("w"))>>)>>)>>)
F5Prog(as, bs) == Pg(<<F5Facts("A", as), F5Facts("B", bs), F5Top, F5Low, F5Report, F5Span>>)
Family5 ==
  [name |-> "order_limit",
   versions |-> << Ver(F5Prog(<< <<sb, 5>>, <<sa, 1>> >>, << <<sc, 3>>, <<sd, 9>> >>),
                       <<"logica_test">>, "", <<Gr("Top", ""), Gr("Low", "")>>),
                   Ver(F5Prog(<< <<sb, 5>>, <<sa, 1>>, <<sc, 4>> >>, << <<sc, 3>>, <<sd, 0>> >>),
                       <<"logica_test">>, "", <<Gr("Top", ""), Gr("Low", "")>>) >>,
   runnable |-> <<"Report", "Span", "Top">>,
   stale |-> <<Stale("logica_test.Top", <<[col0 |-> <<"s", sa>>, col1 |-> <<"n", 1>>],
                                          [col0 |-> <<"s", sb>>, col1 |-> <<"n", 5>>]>>),
               Stale("logica_test.Low", <<[col0 |-> <<"s", sb>>, col1 |-> <<"n", 5>>]>>)>>]

(* Family 6: string-valued grounded predicates whose literals contain `;`  *)
(* at the end of a line, newlines (triple-quoted in the source), single    *)
(* and double quotes.  The multi-line literal sits in the head of a        *)
(* single-rule predicate, i.e. at the top level of the generated SELECT    *)
(* (inside a nested select the SQL formatter re-indents it: that is        *)
(* finding F-C10-newline-indent, property C10, not this one).              *)
(*   E(1); E(2);   @Ground(Msg); @Ground(W);                               *)
(*   Msg(x, """go;<nl>it's "x";<nl>end""") :- E(x);                        *)
(*   W("a;"); W("it's"); W('say "hi";');                                   *)
(*   Loud(x, m ++ "!") :- Msg(x, m);   Both(m, w) :- Msg(1, m), W(w);      *)
(* Version 2: another multi-line text, one more W.                         *)
txt1 == <<103, 111, 59, 10, 105, 116, 39, 115, 32, 34, 120, 34, 59, 10, 101, 110, 100>>
txt2 == <<59, 10, 59, 10, 39, 39, 32, 111, 107, 59>>
wa == <<97, 59>>
wits == <<105, 116, 39, 115>>
wsay == <<115, 97, 121, 32, 34, 104, 105, 34, 59>>
wsemi == <<59, 59, 32, 39, 59>>
F6E == Pd("E", <<Fact1(Nm(1)), Fact1(Nm(2))>>)
F6Msg(t) == Pd("Msg", <<Rl(<<Hd("col0", Vr("x")), Hd("col1", St(t))>>,
                           <<At("E", <<Ar("col0", Vr("x"))>>)>>)>>)
F6W(ws) == Pd("W", [i \in 1..Len(ws) |-> Fact1(St(ws[i]))])
F6Loud == Pd("Loud", <<Rl(<<Hd("col0", Vr("x")), Hd("col1", Bin("++", Vr("m"), St(<<33>>)))>>,
                          <<At("Msg", <<Ar("col0", Vr("x")), Ar("col1", Vr("m"))>>)>>)>>)
F6Both == Pd("Both", <<Rl(<<Hd("col0", Vr("m")), Hd("col1", Vr("w"))>>,
                          <<At("Msg", <<Ar("col0", Nm(1)), Ar("col1", Vr("m"))>>),
                            At("W", <<Ar("col0", Vr("w"))>>)>>)>>)
Family6 ==
  [name |-> "string_literals",
   versions |-> << Ver(Pg(<<F6E, F6Msg(txt1), F6W(<<wa, wits, wsay>>), F6Loud, F6Both>>),
                       <<"logica_test">>, "", <<Gr("Msg", ""), Gr("W", "")>>),
                   Ver(Pg(<<F6E, F6Msg(txt2), F6W(<<wa, wits, wsay, wsemi>>), F6Loud, F6Both>>),
                       <<"logica_test">>, "", <<Gr("Msg", ""), Gr("W", "")>>) >>,
   runnable |-> <<"Loud", "Both", "Msg">>,
   stale |-> <<Stale("logica_test.Msg", <<[col0 |-> <<"n", 7>>, col1 |-> <<"s", stale>>]>>),
               Stale("logica_test.W", <<[col0 |-> <<"s", stale>>]>>)>>]

(* Family 7: several attached databases and @Dataset.                      *)
(*   @AttachDatabase("logica_home", f1); @AttachDatabase("archive", f2);   *)
(*   @Dataset("archive");                                                  *)
(*   @Ground(T);                          -> table T of the archive file   *)
(*   @Ground(P, "logica_home.my_table");  -> explicit database and name    *)
(*   E(1); E(2); E(2);  T(x) :- E(x);  P(x + 1) :- T(x);                   *)
(*   S(x) :- P(x), T(y);                                                   *)
(* Version 2: no @Dataset (T defaults to logica_home, the archive table    *)
(* stays behind), P explicitly in the archive, other facts.                *)
F7T == Pd("T", <<Rl(<<Hd("col0", Vr("x"))>>, <<At("E", <<Ar("col0", Vr("x"))>>)>>)>>)
F7P == Pd("P", <<Rl(<<Hd("col0", Bin("+", Vr("x"), Nm(1)))>>,
                    <<At("T", <<Ar("col0", Vr("x"))>>)>>)>>)
F7S == Pd("S", <<Rl(<<Hd("col0", Vr("x"))>>,
                    <<At("P", <<Ar("col0", Vr("x"))>>), At("T", <<Ar("col0", Vr("y"))>>)>>)>>)
Family7 ==
  [name |-> "datasets",
   versions |-> << Ver(Pg(<<F2E(<<1, 2, 2>>), F7T, F7P, F7S>>), <<"logica_home", "archive">>,
                       "archive", <<Gr("T", ""), Gr("P", "logica_home.my_table")>>),
                   Ver(Pg(<<F2E(<<3, 4>>), F7T, F7P, F7S>>), <<"logica_home", "archive">>,
                       "", <<Gr("T", ""), Gr("P", "archive.my_table")>>) >>,
   runnable |-> <<"S", "P", "T">>,
   stale |-> <<Stale("logica_home.T", <<[col0 |-> <<"n", 7>>]>>),
               Stale("archive.T", <<[col0 |-> <<"n", 8>>]>>),
               Stale("logica_home.my_table", <<[col0 |-> <<"n", 9>>]>>)>>]

(* Family 8: chains of non-injectible predicates (compiled as WITH tables)  *)
(* with NO grounded predicate below, shared by a grounded table and        *)
(* another parent.  Degree <- Hub is a 2-level chain, Degree <- Hub <- Core *)
(* a 3-level one.                                                          *)
(*   Edge(1,2); Edge(1,3); Edge(2,3); Edge(2,3); Edge(3,1);                *)
(*   Degree(x, d? += 1) distinct :- Edge(x, y);                            *)
(*   Hub(x) distinct :- Degree(x, d:), d > 1;                              *)
(*   Core(x, n? += 1) distinct :- Hub(x), Edge(x, y);                      *)
(*   @Ground(G); G(x) :- Hub(x);        @Ground(H); H(x, n) :- Core(x, n:); *)
(*   MainFirstG(x) :- G(x), Hub(x);   ground + main, the reader of G first *)
(*   MainFirstW(x) :- Hub(x), G(x);   ... the WITH table first             *)
(*   Two(x, n) :- G(x), H(x, n:);     ground + ground, both read Hub        *)
(*   TwoRev(x, n) :- H(x, n:), G(x);  ... in the other compile order       *)
(* Version 2: other edges.                                                 *)
Edge2(a, b) == Fact2(Nm(a), Nm(b))
F8Edge(es) == Pd("Edge", [i \in 1..Len(es) |-> Edge2(es[i][1], es[i][2])])
F8Degree == Pd("Degree", <<RlD(<<Hd("col0", Vr("x")), HdAgg("d", "Sum", Nm(1))>>,
                               <<At("Edge", <<Ar("col0", Vr("x")), Ar("col1", Vr("y"))>>)>>)>>)
F8Hub == Pd("Hub", <<RlD(<<Hd("col0", Vr("x"))>>,
                         <<At("Degree", <<Ar("col0", Vr("x")), Ar("d", Vr("d"))>>),
                           Cm(Bin(">", Vr("d"), Nm(1)))>>)>>)
F8Core == Pd("Core", <<RlD(<<Hd("col0", Vr("x")), HdAgg("n", "Sum", Nm(1))>>,
                           <<At("Hub", <<Ar("col0", Vr("x"))>>),
                             At("Edge", <<Ar("col0", Vr("x")), Ar("col1", Vr("y"))>>)>>)>>)
F8G == Pd("G", <<Rl(<<Hd("col0", Vr("x"))>>, <<At("Hub", <<Ar("col0", Vr("x"))>>)>>)>>)
F8H == Pd("H", <<Rl(<<Hd("col0", Vr("x")), Hd("col1", Vr("n"))>>,
                    <<At("Core", <<Ar("col0", Vr("x")), Ar("n", Vr("n"))>>)>>)>>)
AtG == At("G", <<Ar("col0", Vr("x"))>>)
AtHub == At("Hub", <<Ar("col0", Vr("x"))>>)
AtH == At("H", <<Ar("col0", Vr("x")), Ar("col1", Vr("n"))>>)
F8One(name, body) == Pd(name, <<Rl(<<Hd("col0", Vr("x"))>>, body)>>)
F8Pair(name, body) == Pd(name, <<Rl(<<Hd("col0", Vr("x")), Hd("col1", Vr("n"))>>, body)>>)
F8Prog(es) == Pg(<<F8Edge(es), F8Degree, F8Hub, F8Core, F8G, F8H,
                   F8One("MainFirstG", <<AtG, AtHub>>), F8One("MainFirstW", <<AtHub, AtG>>),
                   F8Pair("Two", <<AtG, AtH>>), F8Pair("TwoRev", <<AtH, AtG>>)>>)
Family8 ==
  [name |-> "with_chain",
   versions |-> << Ver(F8Prog(<< <<1, 2>>, <<1, 3>>, <<2, 3>>, <<2, 3>>, <<3, 1>> >>),
                       <<"logica_test">>, "", <<Gr("G", ""), Gr("H", "")>>),
                   Ver(F8Prog(<< <<1, 2>>, <<3, 3>>, <<2, 3>>, <<3, 2>>, <<3, 1>> >>),
                       <<"logica_test">>, "", <<Gr("G", ""), Gr("H", "")>>) >>,
   runnable |-> <<"MainFirstG", "MainFirstW", "Two", "TwoRev">>,
   stale |-> <<Stale("logica_test.G", <<[col0 |-> <<"n", 7>>]>>),
               Stale("logica_test.H", <<[col0 |-> <<"n", 7>>, col1 |-> <<"n", 7>>]>>)>>]

(* Family 9: flag parameters inside the definitions of grounded predicates. *)
(*   @DefineFlag("who", "daniel");     overridden on the command line with   *)
(*   E(1); E(2);                       --who=bel in version 2               *)
(*   @Ground(T); T(x, "seen by ${who}") :- E(x);                            *)
(*   @Ground(U); U(m ++ " and ${who}") distinct :- T(x, m);                 *)
(*   S(x, m ++ "!") :- T(x, m);   S2(m) :- U(m);                            *)
(* A program with flags means the program with every ${flag} replaced by    *)
(* the flag's value (the value given by the user, else the default): the    *)
(* family is a function of that text.  `source` is the same function of     *)
(* the text "${who}" - what is written in the file; `prog` is what it means. *)
(* flags: Seq([name, default, given]) (given = <<>>: not on the command      *)
(* line); all three as code points.                                         *)
seenby == <<115, 101, 101, 110, 32, 98, 121, 32>>
andw == <<32, 97, 110, 100, 32>>
daniel == <<100, 97, 110, 105, 101, 108>>
bel == <<98, 101, 108>>
whoRef == <<36, 123, 119, 104, 111, 125>>            \* ${who}
F9T(w) == Pd("T", <<Rl(<<Hd("col0", Vr("x")), Hd("col1", St(seenby \o w))>>,
                       <<At("E", <<Ar("col0", Vr("x"))>>)>>)>>)
F9U(w) == Pd("U", <<RlD(<<Hd("col0", Bin("++", Vr("m"), St(andw \o w)))>>,
                        <<At("T", <<Ar("col0", Vr("x")), Ar("col1", Vr("m"))>>)>>)>>)
F9S == Pd("S", <<Rl(<<Hd("col0", Vr("x")), Hd("col1", Bin("++", Vr("m"), St(<<33>>)))>>,
                    <<At("T", <<Ar("col0", Vr("x")), Ar("col1", Vr("m"))>>)>>)>>)
F9S2 == Pd("S2", <<Rl(<<Hd("col0", Vr("m"))>>, <<At("U", <<Ar("col0", Vr("m"))>>)>>)>>)
F9Prog(w) == Pg(<<F6E, F9T(w), F9U(w), F9S, F9S2>>)
FlagValue(f) == IF f.given = <<>> THEN f.default ELSE f.given
F9Ver(f) == [prog |-> F9Prog(FlagValue(f)), source |-> F9Prog(whoRef), flags |-> <<f>>,
             attached |-> <<"logica_test">>, dataset |-> "",
             grounded |-> <<Gr("T", ""), Gr("U", "")>>]
Family9 ==
  [name |-> "flags",
   versions |-> << F9Ver([name |-> "who", default |-> daniel, given |-> <<>>]),
                   F9Ver([name |-> "who", default |-> daniel, given |-> bel]) >>,
   runnable |-> <<"S", "S2", "T">>,
   stale |-> <<Stale("logica_test.T", <<[col0 |-> <<"n", 7>>, col1 |-> <<"s", whoRef>>]>>),
               Stale("logica_test.U", <<[col0 |-> <<"s", stale>>]>>)>>]

Families == <<Family1, Family2, Family3, Family4, Family5, Family6, Family7, Family8, Family9>>

=============================================================================
