---------------------------- MODULE GroundModels ----------------------------
(***************************************************************************)
(* The concrete programs Ground.tla is instantiated over (TLC needs        *)
(* concrete rules to evaluate LSem!Den).  Each family is a small program   *)
(* in two versions with one or two grounded intermediates.  The harness    *)
(* gets these very records from TLC (MCGround prints them as JSON) and     *)
(* renders them to Logica text with harness/ir.py; nothing about them is   *)
(* defined on the Python side.                                             *)
(*                                                                         *)
(* Shapes kept out on purpose (known engine deviations recorded for C02):  *)
(* aggregation over nothing, nulls, zero-key aggregation over an empty     *)
(* body.  List-valued aggregates are kept out as well so that every bag is *)
(* a plain multiset of scalar rows.                                        *)
(***************************************************************************)
EXTENDS LValues

Vr(x) == [k |-> "var", name |-> x]
Nm(i) == [k |-> "lit", v |-> <<"n", i>>]
St(cs) == [k |-> "lit", v |-> <<"s", cs>>]
Bin(op, a, b) == [k |-> "op", op |-> op, args |-> <<a, b>>]
Ar(f, e) == [f |-> f, e |-> e]
At(p, args) == [k |-> "atom", p |-> p, args |-> args]
Cm(e) == [k |-> "cmp", e |-> e]
Un(l, r) == [k |-> "unify", l |-> l, r |-> r]
Alt(alts) == [k |-> "or", alts |-> alts]
Hd(f, e) == [f |-> f, e |-> e, agg |-> ""]
HdAgg(f, op, e) == [f |-> f, e |-> e, agg |-> op]
Rl(head, body) == [head |-> head, distinct |-> FALSE, body |-> body]
RlD(head, body) == [head |-> head, distinct |-> TRUE, body |-> body]
Fact1(e) == Rl(<<Hd("col0", e)>>, <<>>)
Pd(name, rules) == [name |-> name, rules |-> rules, inline |-> FALSE,
                    order |-> <<>>, limit |-> -1]
Pg(preds) == [preds |-> preds, rec |-> <<>>, makes |-> <<>>]
Gr(p, t) == [p |-> p, t |-> t]
Stale(t, bag) == [t |-> t, bag |-> bag]

\* code points
mene == <<109, 101, 110, 101>>
tekel == <<116, 101, 107, 101, 108>>
upharsin == <<117, 112, 104, 97, 114, 115, 105, 110>>
peres == <<112, 101, 114, 101, 115>>
stale == <<115, 116, 97, 108, 101>>
sx == <<120>>
sy == <<121>>
sz == <<122>>

-----------------------------------------------------------------------------
(* Family 1: the example of docs/learn/logica.md "Writing to database".    *)
(*   @AttachDatabase("logica_home", "wall.db");  @Ground(T);               *)
(*   T("mene"); T("mene"); T("tekel"); T("upharsin");  S() += 1 :- T();     *)
(* Version 2 adds a fact.                                                  *)
F1T(words) == Pd("T", [i \in 1..Len(words) |-> Fact1(St(words[i]))])
F1S == Pd("S", <<RlD(<<HdAgg("logica_value", "Sum", Nm(1))>>, <<At("T", <<>>)>>)>>)
Family1 ==
  [name |-> "docs_wall", attach |-> "logica_home",
   versions |-> << [prog |-> Pg(<<F1T(<<mene, mene, tekel, upharsin>>), F1S>>),
                    grounded |-> <<Gr("T", "T")>>],
                   [prog |-> Pg(<<F1T(<<mene, mene, tekel, upharsin, peres>>), F1S>>),
                    grounded |-> <<Gr("T", "T")>>] >>,
   runnable |-> <<"S", "T">>,
   stale |-> <<Stale("T", <<[col0 |-> <<"s", stale>>]>>),
               Stale("Other", <<[k |-> <<"n", 7>>]>>)>>]

(* Family 2: a chain of two grounded predicates over a multiset.           *)
(*   E(1); E(2); E(2);  @Ground(P); @Ground(Q);                            *)
(*   P(x) :- E(x);  Q(x + 1) :- P(x);  R(x) :- Q(x), P(x);                 *)
(* Version 2: other facts, and Q is no longer grounded (its table stays).  *)
F2E(ns) == Pd("E", [i \in 1..Len(ns) |-> Fact1(Nm(ns[i]))])
F2P == Pd("P", <<Rl(<<Hd("col0", Vr("x"))>>, <<At("E", <<Ar("col0", Vr("x"))>>)>>)>>)
F2Q == Pd("Q", <<Rl(<<Hd("col0", Bin("+", Vr("x"), Nm(1)))>>,
                    <<At("P", <<Ar("col0", Vr("x"))>>)>>)>>)
F2R == Pd("R", <<Rl(<<Hd("col0", Vr("x"))>>,
                    <<At("Q", <<Ar("col0", Vr("x"))>>), At("P", <<Ar("col0", Vr("x"))>>)>>)>>)
Family2 ==
  [name |-> "chain", attach |-> "logica_test",
   versions |-> << [prog |-> Pg(<<F2E(<<1, 2, 2>>), F2P, F2Q, F2R>>),
                    grounded |-> <<Gr("P", "P"), Gr("Q", "Q")>>],
                   [prog |-> Pg(<<F2E(<<3, 4, 4, 5>>), F2P, F2Q, F2R>>),
                    grounded |-> <<Gr("P", "P")>>] >>,
   runnable |-> <<"R", "Q", "P">>,
   stale |-> <<Stale("P", <<[col0 |-> <<"n", 7>>], [col0 |-> <<"n", 8>>]>>),
               Stale("Q", <<[col0 |-> <<"n", 8>>]>>),
               Stale("Other", <<[k |-> <<"n", 7>>]>>)>>]

(* Family 3: two independent grounded predicates with named columns, one   *)
(* under an explicit table name, read through an ungrounded middle.        *)
(*   F(name: "x", w: 1); F(name: "x", w: 2); F(name: "y", w: 5);           *)
(*   @Ground(Tot, "logica_test.totals"); @Ground(Big);                     *)
(*   Tot(name:, total? += w) distinct :- F(name:, w:);                     *)
(*   Big(name:) :- F(name:, w:), w > 1;                                    *)
(*   M(name:, total:) :- Tot(name:, total:), Big(name:);                   *)
(*   Top(name:) :- M(name:, total:), total > 2;                            *)
(*   OnlyBig(name:) distinct :- Big(name:);                                *)
(* Version 2 has one more fact (the totals change).                        *)
F3Fact(n, w) == Rl(<<Hd("name", St(n)), Hd("w", Nm(w))>>, <<>>)
F3F(fs) == Pd("F", [i \in 1..Len(fs) |-> F3Fact(fs[i][1], fs[i][2])])
F3Tot == Pd("Tot", <<RlD(<<Hd("name", Vr("name")), HdAgg("total", "Sum", Vr("w"))>>,
                         <<At("F", <<Ar("name", Vr("name")), Ar("w", Vr("w"))>>)>>)>>)
F3Big == Pd("Big", <<Rl(<<Hd("name", Vr("name"))>>,
                        <<At("F", <<Ar("name", Vr("name")), Ar("w", Vr("w"))>>),
                          Cm(Bin(">", Vr("w"), Nm(1)))>>)>>)
F3M == Pd("M", <<Rl(<<Hd("name", Vr("name")), Hd("total", Vr("total"))>>,
                    <<At("Tot", <<Ar("name", Vr("name")), Ar("total", Vr("total"))>>),
                      At("Big", <<Ar("name", Vr("name"))>>)>>)>>)
F3Top == Pd("Top", <<Rl(<<Hd("name", Vr("name"))>>,
                        <<At("M", <<Ar("name", Vr("name")), Ar("total", Vr("total"))>>),
                          Cm(Bin(">", Vr("total"), Nm(2)))>>)>>)
F3Only == Pd("OnlyBig", <<RlD(<<Hd("name", Vr("name"))>>,
                              <<At("Big", <<Ar("name", Vr("name"))>>)>>)>>)
F3Prog(fs) == Pg(<<F3F(fs), F3Tot, F3Big, F3M, F3Top, F3Only>>)
Family3 ==
  [name |-> "independent_named", attach |-> "logica_test",
   versions |-> << [prog |-> F3Prog(<< <<sx, 1>>, <<sx, 2>>, <<sy, 5>> >>),
                    grounded |-> <<Gr("Tot", "totals"), Gr("Big", "Big")>>],
                   [prog |-> F3Prog(<< <<sx, 1>>, <<sx, 2>>, <<sy, 5>>, <<sz, 2>>, <<sz, 2>> >>),
                    grounded |-> <<Gr("Tot", "totals"), Gr("Big", "Big")>>] >>,
   runnable |-> <<"Top", "OnlyBig", "Tot">>,
   stale |-> <<Stale("totals", <<[name |-> <<"s", stale>>, total |-> <<"n", 99>>]>>),
               Stale("Big", <<[name |-> <<"s", sx>>], [name |-> <<"s", stale>>]>>),
               Stale("Other", <<[k |-> <<"n", 7>>]>>)>>]

(* Family 4: a grounded predicate below another one through an ungrounded  *)
(* middle, read again through a disjunction; the attach form of the docs.  *)
(*   N(1); N(2); N(3);  @Ground(A); @Ground(B);                            *)
(*   A(x) :- N(x), x > 1;  Mid(x, y) :- A(x), y == x * 2;  B(y) :- Mid(x, y); *)
(*   Z(x) :- B(x) | A(x);                                                  *)
(* Version 2: A filters x > 2 and is no longer grounded, B still is.       *)
F4N == Pd("N", <<Fact1(Nm(1)), Fact1(Nm(2)), Fact1(Nm(3))>>)
F4A(lo) == Pd("A", <<Rl(<<Hd("col0", Vr("x"))>>,
                        <<At("N", <<Ar("col0", Vr("x"))>>), Cm(Bin(">", Vr("x"), Nm(lo)))>>)>>)
F4Mid == Pd("Mid", <<Rl(<<Hd("col0", Vr("x")), Hd("col1", Vr("y"))>>,
                        <<At("A", <<Ar("col0", Vr("x"))>>),
                          Un(Vr("y"), Bin("*", Vr("x"), Nm(2)))>>)>>)
F4B == Pd("B", <<Rl(<<Hd("col0", Vr("y"))>>,
                    <<At("Mid", <<Ar("col0", Vr("x")), Ar("col1", Vr("y"))>>)>>)>>)
F4Z == Pd("Z", <<Rl(<<Hd("col0", Vr("x"))>>,
                    <<Alt(<< <<At("B", <<Ar("col0", Vr("x"))>>)>>,
                             <<At("A", <<Ar("col0", Vr("x"))>>)>> >>)>>)>>)
Family4 ==
  [name |-> "through_middle", attach |-> "logica_home",
   versions |-> << [prog |-> Pg(<<F4N, F4A(1), F4Mid, F4B, F4Z>>),
                    grounded |-> <<Gr("A", "A"), Gr("B", "B")>>],
                   [prog |-> Pg(<<F4N, F4A(2), F4Mid, F4B, F4Z>>),
                    grounded |-> <<Gr("B", "B")>>] >>,
   runnable |-> <<"Z", "B", "A">>,
   stale |-> <<Stale("A", <<[col0 |-> <<"n", 7>>]>>),
               Stale("B", <<[col0 |-> <<"n", 2>>], [col0 |-> <<"n", 2>>]>>),
               Stale("Other", <<[k |-> <<"n", 7>>]>>)>>]

Families == <<Family1, Family2, Family3, Family4>>

=============================================================================
