------------------------------ MODULE GroundSem ------------------------------
(***************************************************************************)
(* What running a predicate of a program with @Ground annotations does to  *)
(* a persistent database file (docs/learn/logica.md, "Writing to           *)
(* database"), stated with the bag semantics of LSem.  No variables here:  *)
(* Ground.tla turns these effects into a state machine, GroundTrace.tla    *)
(* uses them to judge recorded runs of the real pipeline.                  *)
(*                                                                         *)
(* A program *version* is                                                  *)
(*   [prog     |-> an LSem program (Den ignores plan annotations; the      *)
(*                 order/limit fields of a predicate are @OrderBy/@Limit), *)
(*    attached |-> Seq(database alias)   @AttachDatabase(alias, <file>),   *)
(*    dataset  |-> alias or ""           @Dataset(alias), "" = not given,  *)
(*    grounded |-> Seq([p |-> predicate, t |-> "" | "alias.name"])]        *)
(*                                       @Ground(p) / @Ground(p, "a.n")    *)
(* and the operators below take it prepared: v = Prep(version).            *)
(* The persistent state is ALL attached database files together: `file` is *)
(* a function  "alias.name" -> bag of rows  (table `name` of the file      *)
(* attached as `alias`; a sequence; "$" is the sentinel key that keeps     *)
(* DOMAIN a set of strings).  A key that is not in the DOMAIN: no such     *)
(* table in that file.                                                     *)
(***************************************************************************)
EXTENDS LSem

EmptyFile == ("$" :> <<>>)
TablesOf(file) == (DOMAIN file) \ {"$"}

RawGPreds(raw) == {raw.grounded[i].p : i \in 1..Len(raw.grounded)}

(* Where @Ground(p) without a table name writes: the dataset named by       *)
(* @Dataset, else logica_home when a database is attached under that name,  *)
(* else logica_test (compiler/universe.py Annotations.Dataset; the docs'    *)
(* example attaches logica_home and finds its table there).                 *)
DefaultDataset(raw) ==
  IF raw.dataset # "" THEN raw.dataset
  ELSE IF "logica_home" \in Range(raw.attached) THEN "logica_home" ELSE "logica_test"
RawTable(raw, g) == IF g.t = "" THEN DefaultDataset(raw) \o "." \o g.p ELSE g.t

(* What the query of p reads: the ungrounded predicates below p (they are  *)
(* part of p's own query) and the grounded ones it meets first (those are  *)
(* read as tables).  The walk does not look below a grounded predicate.     *)
RECURSIVE LocalGo(_, _, _, _)
LocalGo(pm, G, seen, frontier) ==
  IF frontier = {} THEN seen
  ELSE LET nxt == (UNION {NeedsOf(pm, q) : q \in frontier}) \ seen
       IN LocalGo(pm, G, seen \cup nxt, nxt \ G)

(* A version prepared for evaluation: the dependency facts every operator   *)
(* below needs, computed once per version (TLC does not memoise operators; *)
(* Ground.tla keeps the prepared versions in a constant).                  *)
(*   local[p]  what p's own query reads (see LocalGo)                      *)
(*   gdeps[p]  every grounded predicate below p (through grounded ones too) *)
Prep(raw) ==
  LET pm == PredMap(raw.prog)
      G == RawGPreds(raw)
      mat == {p \in DOMAIN pm : ~pm[p].inline}
  IN [prog |-> raw.prog, grounded |-> raw.grounded, pm |-> pm, G |-> G,
      tab |-> [q \in G |-> RawTable(raw, raw.grounded[CHOOSE i \in 1..Len(raw.grounded) :
                                                         raw.grounded[i].p = q])],
      local |-> [p \in mat |-> LocalGo(pm, G, {}, {p})],
      gdeps |-> [p \in mat |-> (DepsT(pm, {}, {p}) \cap G) \ {p}]]

GPreds(v) == v.G
TableOf(v, q) == v.tab[q]      \* "alias.name"
VPM(v) == v.pm
Local(v, p) == v.local[p]

(* The grounded predicates p reads as tables / all grounded ones below p. *)
DirectG(v, p) == Local(v, p) \cap GPreds(v)
GDeps(v, p) == v.gdeps[p]
WrittenTables(v, p) == {TableOf(v, q) : q \in GDeps(v, p)}

(* The bag p evaluates to when every grounded predicate it reads is taken  *)
(* from its table in `file` (NOT re-evaluated): this is what makes a stale  *)
(* or mis-ordered table observable.                                        *)
EvalAgainst(v, p, file, dev) ==
  LET pm == VPM(v)
      loc == Local(v, p)
      dg == loc \cap GPreds(v)
      fixed == [g \in dg |-> file[TableOf(v, g)]]
  IN EvalPreds(v.prog, pm, {p} \cup (loc \ dg), fixed @@ EmptyDb, dev)[p]

(* Tables written by running p, in dependency order: a grounded predicate  *)
(* is written after every grounded predicate below it, reading their       *)
(* tables from the file as it is by then.                                  *)
RECURSIVE WriteAll(_, _, _, _)
WriteAll(v, todo, file, dev) ==
  IF todo = {} THEN file
  ELSE LET ready == {q \in todo : GDeps(v, q) \cap todo = {}}
           q == CHOOSE q \in ready : TRUE
       IN WriteAll(v, todo \ {q},
                   (TableOf(v, q) :> EvalAgainst(v, q, file, dev)) @@ file, dev)

(* Run(p): every grounded predicate below p is (re)written - never p       *)
(* itself, also when p is grounded: asking for a grounded predicate prints  *)
(* it without writing it - then p is evaluated reading those tables.        *)
RunEffect(v, p, file, dev) ==
  LET f2 == WriteAll(v, GDeps(v, p), file, dev)
  IN [file |-> f2, out |-> EvalAgainst(v, p, f2, dev)]

(* A stale table left in the file under some name. *)
PrePopulateEffect(file, t, bag) == (t :> bag) @@ file

(* Bags: equal as multisets of rows (row order in a table means nothing). *)
SameBag(a, b) ==
  /\ Len(a) = Len(b)
  /\ \A r \in Range(a) :
       Cardinality({j \in 1..Len(a) : a[j] = r}) = Cardinality({j \in 1..Len(b) : b[j] = r})
(* Expected bag (may hold values with several acceptable observations:     *)
(* unordered lists, ties, rationals) against an observed one.  When the     *)
(* expected rows are plain values, matching is equality and the bags are    *)
(* compared by counting (LSem!BagMatch backtracks: exponential on a         *)
(* mismatch among many equal rows).                                         *)
RECURSIVE PlainV(_)
PlainV(v) ==
  CASE v[1] \in {"m", "any", "q"} -> FALSE
    [] v[1] = "l" -> \A i \in 1..Len(v[2]) : PlainV(v[2][i])
    [] v[1] = "r" -> \A i \in 1..Len(v[2]) : PlainV(v[2][i][2])
    [] OTHER -> TRUE
PlainRows(rows) == \A i \in 1..Len(rows) : \A f \in DOMAIN rows[i] : PlainV(rows[i][f])
BagOk(es, os) ==
  /\ Len(es) = Len(os)
  /\ IF PlainRows(es) THEN SameBag(es, os) ELSE BagMatch(es, os)

SameFile(f, g) == DOMAIN f = DOMAIN g /\ \A t \in DOMAIN f : SameBag(f[t], g[t])

-----------------------------------------------------------------------------
(* The same thing as a relation between an observed file before, an         *)
(* observed file after and the returned rows.  It does not need the         *)
(* intermediate files: every written table must be what its predicate      *)
(* evaluates to against the FINAL contents of the tables it reads (a table  *)
(* written before the tables it reads were refreshed fails this, and so     *)
(* does a table that was not rewritten), the returned rows must be what p   *)
(* evaluates to against the final file, and nothing else changes.           *)
(* Each clause is named; all failing ones are reported, in this order.      *)
(* When a table p reads directly is missing, the returned rows cannot be    *)
(* judged against the file; they are then judged against the bag p denotes  *)
(* (which is what they must be anyway when all tables are faithful).        *)
RunClauses(v, p, pre, post, out, dev) ==
  LET W == GDeps(v, p)
      wt == {TableOf(v, q) : q \in W}
      missing == {q \in W : TableOf(v, q) \notin DOMAIN post}
      CanJudge(q) == \A g \in DirectG(v, q) : TableOf(v, g) \in DOMAIN post
      unfaithful == {q \in W \ missing :
                       IF CanJudge(q)
                       THEN ~BagOk(EvalAgainst(v, q, post, dev), post[TableOf(v, q)])
                       ELSE ~BagOk(DenDev(v.prog, dev)[q], post[TableOf(v, q)])}
      touched == {t \in (TablesOf(pre) \cup TablesOf(post)) \ wt :
                    \/ t \notin DOMAIN pre
                    \/ t \notin DOMAIN post
                    \/ ~SameBag(pre[t], post[t])}
      own == IF p \in GPreds(v) THEN {TableOf(v, p)} \cap touched ELSE {}
      \* a table of ANOTHER grounded predicate of this version that now holds
      \* exactly what that predicate denotes: the property does not forbid
      \* writing it (reported, not a failure)
      extra == {t \in (touched \ own) \cap DOMAIN post :
                  \E g \in GPreds(v) \ (W \cup {p}) :
                     TableOf(v, g) = t /\ BagOk(DenDev(v.prog, dev)[g], post[t])}
      clobbered == (touched \ own) \ extra
      rowsOk == IF CanJudge(p) THEN BagOk(EvalAgainst(v, p, post, dev), out)
                ELSE BagOk(DenDev(v.prog, dev)[p], out)
  IN (IF missing # {} THEN <<[clause |-> "table_missing", on |-> missing]>> ELSE <<>>)
     \o (IF unfaithful # {} THEN <<[clause |-> "table_unfaithful", on |-> unfaithful]>> ELSE <<>>)
     \o (IF own # {} THEN <<[clause |-> "print_wrote", on |-> own]>> ELSE <<>>)
     \o (IF clobbered # {}
         THEN <<[clause |-> "other_table_touched", on |-> clobbered]>> ELSE <<>>)
     \o (IF extra # {} THEN <<[clause |-> "extra_table_written", on |-> extra]>> ELSE <<>>)
     \o (IF ~rowsOk THEN <<[clause |-> "rows", on |-> {p}]>> ELSE <<>>)

Informational == {"extra_table_written"}
Failing(cs) == SelectSeq(cs, LAMBDA c : c.clause \notin Informational)
LegalRun(v, p, pre, post, out, dev) == Failing(RunClauses(v, p, pre, post, out, dev)) = <<>>

=============================================================================
