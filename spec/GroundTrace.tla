----------------------------- MODULE GroundTrace -----------------------------
(***************************************************************************)
(* C17, code -> spec: decides whether recorded sequences of runs of the    *)
(* REAL pipeline against one persistent SQLite file are behaviours of      *)
(* Ground.tla.                                                             *)
(*                                                                         *)
(* Input: ndjson ($TRACE_FILE), one trace per line:                        *)
(*   [tid, dev: Seq(deviation name),                                       *)
(*    versions: Seq([prog, grounded: Seq([p, t])]),      see GroundSem      *)
(*    steps: Seq([a: "Run" | "Pre" | "Switch", p, t, ver, bag,             *)
(*                status: "ok" | ..., out: rows returned (Run),            *)
(*                file: the tables of the attached file AFTER the step])]  *)
(* The trace spec has Ground's three actions, each constrained by the      *)
(* recorded event.  The file and the returned rows are fully logged, so    *)
(* the state after an event is the logged one and the action decides       *)
(* whether Ground allows it as a successor of the logged state before:     *)
(*   Run     GroundSem!RunClauses (the relational reading of Run that      *)
(*           Ground.tla proves of its own Run by invariant                 *)
(*           DependantsReadTables), plus Ground!Idempotent when the event  *)
(*           repeats the previous one;                                     *)
(*   Pre     the file after is GroundSem!PrePopulateEffect of the file      *)
(*           before;                                                       *)
(*   Switch  nothing changes but the version.                              *)
(* A rejected event does not stop the trace (the next event is judged from *)
(* the logged state), it is reported with every clause that failed:        *)
(*   run_failed           the run did not return rows at all               *)
(*   table_missing        a grounded predicate below p has no table        *)
(*   table_unfaithful     its table is not the bag it evaluates to         *)
(*   print_wrote          asking for grounded p changed p's table          *)
(*   other_table_touched  a table of no grounded predicate below p changed *)
(*   extra_table_written  (informational, not a rejection) the table of     *)
(*                        another grounded predicate was written, faithfully *)
(*   rows                 the returned rows are not what p evaluates to    *)
(*                        reading the tables                               *)
(*   not_idempotent       Run(p);Run(p) changed the file or the rows       *)
(*   env                  (Pre/Switch) the harness did not do what it      *)
(*                        logged                                           *)
(* One verdict <<"V", json>> per event; POSTCONDITION: all accepted.       *)
(***************************************************************************)
EXTENDS GroundSem, Json, IOUtils, TLCExt

VARIABLES tr, st, file, out, ver, lastact

vars == <<tr, st, file, out, ver, lastact>>

Traces == TLCGet(100)
T == Traces[tr]
E == T.steps[st]
V == TLCGet(101)[ver]       \* the prepared versions of the current trace
Dev == Range(T.dev)
NoAct == <<"none", "", 0>>

Prepare(k) == TLCSet(101, [i \in 1..Len(Traces[k].versions) |-> Prep(Traces[k].versions[i])])

Start(k) ==
  /\ Prepare(k)
  /\ tr' = k /\ st' = 1 /\ file' = EmptyFile /\ out' = <<>> /\ ver' = 1
  /\ lastact' = NoAct

Init ==
  /\ TLCSet(100, ndJsonDeserialize(IOEnv.TRACE_FILE))
  /\ TLCSet(1, 0)
  /\ Prepare(1)
  /\ tr = 1 /\ st = 1 /\ file = EmptyFile /\ out = <<>> /\ ver = 1
  /\ lastact = NoAct

IsEvent(a) == st <= Len(T.steps) /\ E.a = a

Kind(p) ==
  IF lastact = <<"Run", p, ver>> THEN "RunAgain"
  ELSE IF p \in GPreds(V) THEN "RunGrounded"
  ELSE IF GDeps(V, p) # {} THEN "RunDependant" ELSE "RunPlain"

Report(cs, kind, exp) ==
  /\ PrintT(<<"V", ToJson([tid |-> T.tid, step |-> st, a |-> E.a, p |-> E.p, kind |-> kind,
                           ok |-> Failing(cs) = <<>>,
                           clause |-> IF Failing(cs) = <<>> THEN "ok" ELSE Failing(cs)[1].clause,
                           on |-> IF Failing(cs) = <<>> THEN <<>> ELSE Failing(cs)[1].on,
                           all |-> cs, exp |-> exp])>>)
  /\ IF Failing(cs) = <<>> THEN TRUE ELSE TLCSet(1, TLCGet(1) + 1)

One(clause, on) == <<[clause |-> clause, on |-> on]>>

(* what the specification expected where a clause failed (diagnostics) *)
Expected(cs) ==
  FlatMap(cs, LAMBDA c :
    IF c.clause = "rows" /\ DirectG(V, E.p) \subseteq {g \in GPreds(V) : TableOf(V, g) \in DOMAIN E.file}
    THEN <<[t |-> E.p, rows |-> EvalAgainst(V, E.p, E.file, Dev)]>>
    ELSE IF c.clause = "table_unfaithful"
    THEN LET qs == SetToSeq({q \in c.on : \A g \in DirectG(V, q) : TableOf(V, g) \in DOMAIN E.file})
         IN [i \in 1..Len(qs) |-> [t |-> TableOf(V, qs[i]),
                                   rows |-> EvalAgainst(V, qs[i], E.file, Dev)]]
    ELSE <<>>)

SeqOn(cs) == [i \in 1..Len(cs) |-> [clause |-> cs[i].clause, on |-> SetToSeq(cs[i].on)]]

TraceRun ==
  /\ IsEvent("Run")
  /\ ver = E.ver
  /\ LET kind == Kind(E.p)
     IN IF E.status # "ok"
        THEN Report(One("run_failed", <<E.p>>), kind, <<>>)
        ELSE LET cs == RunClauses(V, E.p, file, E.file, E.out, Dev)
                 again == lastact = <<"Run", E.p, ver>>
                 idem == IF again /\ ~(SameFile(file, E.file) /\ SameBag(out, E.out))
                         THEN One("not_idempotent", <<E.p>>) ELSE <<>>
             IN Report(SeqOn(cs) \o idem, kind, Expected(cs))
  /\ file' = E.file
  /\ out' = IF E.status = "ok" THEN E.out ELSE out
  /\ lastact' = IF E.status = "ok" THEN <<"Run", E.p, ver>> ELSE NoAct
  /\ st' = st + 1
  /\ UNCHANGED <<tr, ver>>

TracePre ==
  /\ IsEvent("Pre")
  /\ IF SameFile(E.file, PrePopulateEffect(file, E.t, E.bag))
     THEN Report(<<>>, "PrePopulate", <<>>)
     ELSE Report(One("env", <<E.t>>), "PrePopulate", <<>>)
  /\ file' = E.file
  /\ lastact' = <<"Pre", E.t, ver>>
  /\ st' = st + 1
  /\ UNCHANGED <<tr, out, ver>>

TraceSwitch ==
  /\ IsEvent("Switch")
  /\ IF SameFile(E.file, file) /\ E.ver \in 1..Len(T.versions)
     THEN Report(<<>>, "SwitchVersion", <<>>)
     ELSE Report(One("env", <<>>), "SwitchVersion", <<>>)
  /\ ver' = E.ver
  /\ file' = E.file
  /\ lastact' = <<"Switch", "", E.ver>>
  /\ st' = st + 1
  /\ UNCHANGED <<tr, out>>

NextTrace ==
  /\ st > Len(T.steps)
  /\ tr < Len(Traces)
  /\ Start(tr + 1)

Next == TraceRun \/ TracePre \/ TraceSwitch \/ NextTrace

Spec == Init /\ [][Next]_vars

Accepted == TLCGet(1) = 0

=============================================================================
