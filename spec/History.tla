------------------------------- MODULE History -------------------------------
(***************************************************************************)
(* C13.  Compilation is a deterministic, history-free function of the      *)
(* program.                                                                *)
(*                                                                         *)
(* State machine: operating-system processes are created (NewProcess with  *)
(* a hash seed) and compile programs (Compile(prog, mode), mode as in      *)
(* HistoryDef).  Every Compile emits a digest (the SQL bytes after masking *)
(* the stop-file time stamp).  `seen[prog]` remembers the first digest     *)
(* ever emitted for prog, across processes.                                *)
(*                                                                         *)
(* The property:                                                           *)
(*   FunctionOfProgram   every Compile(prog) emits F[prog]                 *)
(*   Deterministic       every Compile(prog) emits seen[prog] if there is  *)
(*                       one (what the trace specification can observe)    *)
(* whatever the process state (tooMuch, warm caches, kept and used rules   *)
(* objects, seed) and whatever was compiled before.                        *)
(*                                                                         *)
(* Model = "ideal"   is the specification: Emit ignores the process state. *)
(*                   TLC checks the two invariants over ALL histories of   *)
(*                   every window and prints each history (one per state); *)
(*                   the harness replays them on the real code.            *)
(* Model = "asbuilt" is implementation-shaped (rule R1: exploration and    *)
(*                   localisation only): the parser flag is sticky, so a   *)
(*                   program of w.sensitive parsed while tooMuch is on     *)
(*                   compiles to G[prog].  TLC finds the shortest history  *)
(*                   that violates the property; HistoryTrace uses the     *)
(*                   same operators to explain a deviation of the code.    *)
(*                                                                         *)
(* Model = "failsticky", "leak", "importcache" are more implementation-    *)
(*                   shaped variants (importcache: a module file parsed    *)
(*                   for one main program is reused, with that program's   *)
(*                   prefix, by a later main program): the parser flag survives a parse that FAILS;*)
(*                   the translation tables of an engine compiled earlier  *)
(*                   leak into a later compilation for another engine.     *)
(*                   TLC must find a violating history for each of them in *)
(*                   the windows the harness replays - that is how the     *)
(*                   harness knows these history shapes are enumerated.    *)
(*                                                                         *)
(* Steps may FAIL: every program has a stage (HistoryDef!Stages) at which  *)
(* its compilation ends; Compile of a failing program is the action        *)
(* DoFail: it emits the digest of the diagnostic (still F[prog]) and       *)
(* leaves in the process state what was set before the failure point -     *)
(* which, like everything else in that state, must not matter afterwards.  *)
(*                                                                         *)
(* Windows ($C13_WINDOWS, ndjson): the histories range over               *)
(*   [progs, seeds, modes, maxlen, incant, sensitive, victims, attrs]      *)
(* a set of corpus indices, hash seeds, modes, the bound on the number of  *)
(* Compile actions, which programs contain the incantation / depend on the *)
(* parser flag / call built-ins that differ between dialects, and          *)
(* attrs = Seq([n, stage, eng]) per program.  The history alphabet is      *)
(* therefore (engine, program, outcome).  The harness chooses windows that *)
(* cover the corpus, all ordered pairs of engines and (thorough) all       *)
(* ordered triples.                                                        *)
(***************************************************************************)
EXTENDS HistoryDef, TLC, Json, IOUtils, TLCExt

CONSTANT Model

WindowsRaw == ndJsonDeserialize(IOEnv.C13_WINDOWS)
Windows == TLCGet(100)

VARIABLES win,    \* index of the window
          hist,   \* the actions so far
          ps,     \* state of the current process
          seen,   \* prog -> first digest emitted, <<"none">> before
          out     \* what the last Compile emitted

vars == <<win, hist, ps, seen, out>>

W == Windows[win]
Progs == HRange(W.progs)
Seeds == HRange(W.seeds)
WModes == HRange(W.modes)
Inc(p) == p \in HRange(W.incant)
Attr(p) == CHOOSE a \in HRange(W.attrs) : a.n = p
Stage(p) == Attr(p).stage
Eng(p) == Attr(p).eng
Mods(p) == HRange(Attr(p).mods)

F(p) == <<"F", p>>
G(p) == <<"G", p>>
None == <<"none">>
NoOut == [prog |-> 0, digest |-> None, first |-> None]

Emit(p, m) ==
  IF /\ Model \in {"asbuilt", "failsticky"}
     /\ UnderFun(ps, p, m, Inc(p)) /\ ~Inc(p)
     /\ p \in HRange(W.sensitive)
  THEN G(p)
  ELSE IF /\ Model = "leak"
          /\ p \in HRange(W.victims)
          /\ OtherEngineBefore(ps, Eng(p))
  THEN G(p)
  ELSE IF /\ Model = "importcache"
          /\ ParsesNow(ps, p, m)
          /\ ImportedForOther(ps, p, Mods(p))
  THEN G(p) ELSE F(p)

NCompiles == Cardinality({k \in 1..Len(hist) : hist[k].a = "compile"})

Init ==
  /\ TLCSet(100, WindowsRaw)
  /\ win \in 1..Len(WindowsRaw)
  /\ hist = <<>>
  /\ ps = NoProc
  /\ seen = [p \in {} |-> None]
  /\ out = NoOut

NewProcess(s) ==
  /\ NCompiles < W.maxlen
  /\ IF hist = <<>> THEN TRUE ELSE hist[Len(hist)].a = "compile"
  /\ ps' = FreshProc(s)
  /\ hist' = Append(hist, [a |-> "new", n |-> s, mode |-> "-"])
  /\ out' = NoOut
  /\ UNCHANGED <<win, seen>>

Compile(p, m) ==
  /\ ps.alive
  /\ NCompiles < W.maxlen
  /\ LET d == Emit(p, m)
         first == IF p \in DOMAIN seen THEN seen[p] ELSE None
     IN /\ out' = [prog |-> p, digest |-> d, first |-> first]
        /\ seen' = IF first = None THEN (p :> d) @@ seen ELSE seen
  /\ ps' = AfterCompile(Model, ps, p, m, Inc(p), Stage(p), Eng(p), Mods(p))
  /\ hist' = Append(hist, [a |-> "compile", n |-> p, mode |-> m])
  /\ PrintT(<<"H", ToJson([w |-> win, h |-> hist'])>>)
  /\ UNCHANGED win

DoNewProcess == \E s \in Seeds : NewProcess(s)
DoCompile == \E p \in Progs, m \in WModes : Stage(p) = "ok" /\ Compile(p, m)
DoFail == \E p \in Progs, m \in WModes : Stage(p) # "ok" /\ Compile(p, m)

Next == DoNewProcess \/ DoCompile \/ DoFail

Spec == Init /\ [][Next]_vars

FunctionOfProgram == out # NoOut => out.digest = F(out.prog)
Deterministic == out # NoOut /\ out.first # None => out.digest = out.first
=============================================================================
