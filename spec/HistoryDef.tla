----------------------------- MODULE HistoryDef -----------------------------
(***************************************************************************)
(* C13.  The state an operating-system process of the compiler can carry   *)
(* from one compilation to the next, as pure operators shared by the       *)
(* state machine History.tla and the trace specification HistoryTrace.tla. *)
(*                                                                         *)
(* A process state is a record                                             *)
(*   alive   : a process exists                                            *)
(*   seed    : its PYTHONHASHSEED                                          *)
(*   tooMuch : the parser's experimental-syntax flag (parse.TOO_MUCH)      *)
(*   warm    : something was compiled before (class-level caches filled:   *)
(*             QL.BULK_FUNCTIONS, imported modules)                        *)
(*   plain   : programs whose kept rules object was parsed with the        *)
(*             standard syntax                                             *)
(*   fun     : programs whose kept rules object was parsed with the        *)
(*             experimental syntax                                         *)
(*   used    : programs whose kept rules object was compiled from before   *)
(*             (rulesObjectUsed[prog])                                     *)
(*   engines : engines whose translation tables were built in the process  *)
(*   failed  : some earlier step failed (its exception was caught)         *)
(*   imported: <<module file, program>> pairs: the import machinery parsed *)
(*             that file for that main program (a cache of parsed imports  *)
(*             would keep it, with the prefix THAT program needed)         *)
(*                                                                         *)
(* Modes of Compile(prog, mode):                                           *)
(*   "parse"  parse the text again, compile the fresh rules object         *)
(*   "reuse"  compile from the rules object the process keeps for prog     *)
(*            (parsing it first if the process has none yet)               *)
(*                                                                         *)
(* The PROPERTY says the SQL is F[prog]: none of these fields may matter.  *)
(* `UnderFun` is the one place where the code AS BUILT lets a field matter *)
(* (section 9 row 3 of DESIGN.md; repaired in /repo by commit 720d71e):    *)
(* parse.EnactIncantations switched tooMuch on and nothing switched it     *)
(* off.  It is used only by the                                            *)
(* implementation-shaped model ("asbuilt") and to EXPLAIN a deviation; the *)
(* verdict never depends on it (rule R1).                                  *)
(***************************************************************************)
EXTENDS Naturals, Sequences, FiniteSets

Modes == {"parse", "reuse"}

(* Every program has a STAGE at which its compilation ends, a function of   *)
(* the program: "ok", or the failure "parse" (ParsingException: syntax,     *)
(* import), "compile" (RuleCompileException, FunctorError), "type"          *)
(* (TypeErrorCaughtException), "exec" (compiles; running the SQL fails).    *)
(* A failing step leaves behind whatever was set before the failure point:  *)
(* a parse failure comes after EnactIncantations (flag) but before a rules  *)
(* object exists; the later failures come after the rules object was kept,  *)
(* the caches were filled and the tables of the program's dialect built.    *)
Stages == {"ok", "parse", "compile", "type", "exec"}

NoProc == [alive |-> FALSE, seed |-> 0, tooMuch |-> FALSE, warm |-> FALSE,
           plain |-> {}, fun |-> {}, used |-> {}, engines |-> {},
           failed |-> FALSE, imported |-> {}]

FreshProc(s) == [NoProc EXCEPT !.alive = TRUE, !.seed = s]

Kept(ps, p) == p \in ps.plain \cup ps.fun

(* The action parses the program text now. *)
ParsesNow(ps, p, m) == m = "parse" \/ ~Kept(ps, p)

(* Implementation-shaped: the syntax a parse happening now uses (inc: the   *)
(* text contains the incantation).                                          *)
FunNow(ps, inc) == ps.tooMuch \/ inc

(* Implementation-shaped: the rules object this action compiles from was    *)
(* parsed with the experimental syntax.                                     *)
UnderFun(ps, p, m, inc) ==
  IF ParsesNow(ps, p, m) THEN FunNow(ps, inc) ELSE p \in ps.fun

(* Implementation-shaped: tables of another dialect were built earlier in   *)
(* this process.                                                            *)
OtherEngineBefore(ps, eng) == \E e \in ps.engines : e # eng

(* Implementation-shaped: a module file this program imports was parsed     *)
(* earlier in this process for ANOTHER main program.                        *)
ImportedForOther(ps, p, mods) ==
  \E x \in ps.imported : x[1] \in mods /\ x[2] # p

(* The rules object this action compiles from was compiled from before.    *)
UsedBefore(ps, p, m) == m = "reuse" /\ p \in ps.used

(* The parser flag after the step, in two implementation-shaped models:     *)
(*   "asbuilt"     (before commit 720d71e) set by an incantation, never     *)
(*                 reset                                                    *)
(*   "failsticky"  decided by every parse that SUCCEEDS; a parse that fails *)
(*                 leaves what it had set                                   *)
FlagAfter(model, ps, p, m, inc, stage) ==
  IF ~ParsesNow(ps, p, m) THEN ps.tooMuch
  ELSE IF model = "failsticky"
  THEN (IF stage = "parse" THEN ps.tooMuch \/ inc ELSE FALSE)
  ELSE ps.tooMuch \/ inc

AfterCompile(model, ps, p, m, inc, stage, eng, mods) ==
  LET reached == stage # "parse"      \* a rules object exists
      keep == m = "reuse" /\ ~Kept(ps, p) /\ reached
  IN [ps EXCEPT
        !.tooMuch = FlagAfter(model, ps, p, m, inc, stage),
        !.warm = ps.warm \/ reached,
        !.plain = IF keep /\ ~FunNow(ps, inc) THEN ps.plain \cup {p} ELSE ps.plain,
        !.fun = IF keep /\ FunNow(ps, inc) THEN ps.fun \cup {p} ELSE ps.fun,
        !.used = IF m = "reuse" /\ reached THEN ps.used \cup {p} ELSE ps.used,
        !.engines = IF reached THEN ps.engines \cup {eng} ELSE ps.engines,
        !.failed = ps.failed \/ stage # "ok",
        !.imported = IF ParsesNow(ps, p, m)
                     THEN ps.imported \cup {<<x, p>> : x \in mods}
                     ELSE ps.imported]

HRange(s) == {s[k] : k \in 1..Len(s)}
=============================================================================
