---------------------------- MODULE HistoryTrace ----------------------------
(***************************************************************************)
(* C13, code -> spec.  Validates recordings of the REAL compiler against   *)
(* History.tla: the concatenation of all recorded traces must be a         *)
(* behaviour of History with ONE function F, i.e. every recorded digest    *)
(* equals the first digest recorded for the same (program, predicate) -    *)
(* in the same process, in another process, under another hash seed, after *)
(* any other programs, from a fresh or a used rules object.                *)
(*                                                                         *)
(* Input: ndjson ($TRACE_FILE), one trace per line:                        *)
(*   [id, hist : the history exactly as History.tla exported it,           *)
(*        inc  : Seq(program indices whose text contains the incantation), *)
(*        attrs : Seq([n, stage, eng]) stage and engine of every program,  *)
(*        events : Seq([step, a, seed, prog, pred, mode, used, pf, sql,    *)
(*                      aux])]                                             *)
(* (pf: the text did not parse - no rules object exists for this event)    *)
(* step is the index of the action of hist the event belongs to; a = "new" *)
(* for the start of a process (seed = its PYTHONHASHSEED), a = "ev" for    *)
(* one compiled predicate: sql / aux are sha256 of the masked SQL text and *)
(* of the masked execution data.                                           *)
(*                                                                         *)
(* Clauses, per trace:                                                     *)
(*   shape   the events are the actions of hist, in order: every process   *)
(*           started with the seed History chose; every Compile compiled   *)
(*           the program and mode History chose; "used" is what the        *)
(*           process state of HistoryDef says, and a reuse action did      *)
(*           compile from a used rules object                              *)
(*   sql     digest of the SQL text = first one recorded for (prog, pred)  *)
(*   aux     same for the execution data                                   *)
(*   rules   same for the digest of the parsed rules (ParseFile's result), *)
(*           compared when both recordings parsed the text afresh          *)
(* One verdict per trace is printed as <<"V", json>> naming the first      *)
(* deviating Compile, the two digests and where the first digest was       *)
(* recorded.  `explained` is TRUE when the implementation-shaped model of  *)
(* HistoryDef (sticky parser flag) says this Compile parsed a program      *)
(* without the incantation while the experimental syntax was on;           *)
(* `explained_fail` the same for the model in which only a FAILED parse    *)
(* leaves the flag on; `explained_leak` when another engine's tables were  *)
(* built earlier in the process: used to label a deviation, never to       *)
(* accept one.                                                             *)
(***************************************************************************)
EXTENDS HistoryDef, TLC, Json, IOUtils, TLCExt

Traces == TLCGet(100)

VARIABLES pos, seen

Key(e) == ToString(e.prog) \o "/" \o e.pred
NoDev == <<>>
Inc(t, p) == p \in HRange(t.inc)
Attr(t, p) == CHOOSE a \in HRange(t.attrs) : a.n = p

StepEvents(t, s) == SelectSeq(t.events, LAMBDA e : e.step = s)

Ordered(t) ==
  /\ \A k \in 1..(Len(t.events) - 1) : t.events[k].step <= t.events[k + 1].step
  /\ {t.events[k].step : k \in 1..Len(t.events)} = 1..Len(t.hist)

(* used flags of the events of one Compile action *)
UsedShape(evs, m, usedBefore, stage) ==
  LET n == Len(evs)
      u(k) == evs[k].used
  IN IF m = "parse" \/ stage = "parse" THEN \A k \in 1..n : ~u(k)
     ELSE IF usedBefore THEN \A k \in 1..n : u(k)
     ELSE /\ n >= 2 /\ n % 2 = 0
          /\ \A k \in 1..(n \div 2) :
               /\ ~u(k) /\ u(k + n \div 2)
               /\ evs[k].pred = evs[k + n \div 2].pred

CompileShape(t, s, evs, ps) ==
  LET h == t.hist[s]
  IN /\ ps.alive
     /\ Len(evs) >= 1
     /\ \A k \in 1..Len(evs) :
          evs[k].a = "ev" /\ evs[k].prog = h.n /\ evs[k].mode = h.mode
     /\ \A k \in 1..Len(evs) : evs[k].pf = evs[1].pf
     /\ UsedShape(evs, h.mode, UsedBefore(ps, h.n, h.mode),
                  IF evs[1].pf THEN "parse" ELSE "ok")

Dev(t, s, e, clause, want, ex) ==
  [clause |-> clause, step |-> s, prog |-> e.prog, pred |-> e.pred,
   mode |-> e.mode, used |-> e.used,
   got |-> IF clause = "aux" THEN e.aux ELSE IF clause = "rules" THEN e.rul ELSE e.sql,
   want |-> IF clause = "aux" THEN want.aux ELSE IF clause = "rules" THEN want.rul ELSE want.sql,
   first_trace |-> want.tid, first_step |-> want.step,
   explained |-> ex.sticky, explained_fail |-> ex.fail,
   explained_leak |-> ex.leak, explained_import |-> ex.imp]

(* digests of the events of one Compile action, in order *)
RECURSIVE RunEvents(_, _, _, _, _, _, _)
RunEvents(t, s, evs, k, sn, devs, explained) ==
  IF k > Len(evs) THEN [seen |-> sn, devs |-> devs]
  ELSE
    LET e == evs[k]
        key == Key(e)
    IN IF key \notin DOMAIN sn
       THEN RunEvents(t, s, evs, k + 1,
                      (key :> [sql |-> e.sql, aux |-> e.aux, rul |-> e.rul,
                               tid |-> t.id, step |-> s]) @@ sn,
                      devs, explained)
       ELSE
         LET want == sn[key]
             d == IF e.sql # want.sql
                  THEN <<Dev(t, s, e, "sql", want, explained)>>
                  ELSE IF e.aux # want.aux
                  THEN <<Dev(t, s, e, "aux", want, explained)>>
                  \* digest of the parsed rules, when both were freshly parsed
                  ELSE IF e.rul # "" /\ want.rul # "" /\ e.rul # want.rul
                  THEN <<Dev(t, s, e, "rules", want, explained)>>
                  ELSE <<>>
         IN RunEvents(t, s, evs, k + 1, sn, devs \o d, explained)

ShapeDev(t, s) ==
  [clause |-> "shape", step |-> s, prog |-> t.hist[s].n, pred |-> "",
   mode |-> t.hist[s].mode, used |-> FALSE, got |-> "", want |-> "",
   first_trace |-> "", first_step |-> 0, explained |-> FALSE,
   explained_fail |-> FALSE, explained_leak |-> FALSE,
   explained_import |-> FALSE]

(* ps: process state under the "asbuilt" flag model, ps2: under "failsticky" *)
RECURSIVE RunSteps(_, _, _, _, _, _)
RunSteps(t, s, ps, ps2, sn, devs) ==
  IF s > Len(t.hist) THEN [seen |-> sn, devs |-> devs]
  ELSE
    LET h == t.hist[s]
        evs == StepEvents(t, s)
    IN IF h.a = "new"
       THEN LET ok == Len(evs) = 1 /\ evs[1].a = "new" /\ evs[1].seed = h.n
            IN RunSteps(t, s + 1, FreshProc(h.n), FreshProc(h.n), sn,
                        IF ok THEN devs ELSE devs \o <<ShapeDev(t, s)>>)
       ELSE IF ~CompileShape(t, s, evs, ps)
       THEN RunSteps(t, s + 1, ps, ps2, sn, devs \o <<ShapeDev(t, s)>>)
       ELSE
         LET inc == Inc(t, h.n)
             decl == Attr(t, h.n)
             \* whether a rules object came to exist is OBSERVED (a program
             \* declared to fail at parse that parses is a digest deviation,
             \* not a malformed recording)
             a == [decl EXCEPT !.stage =
                     IF evs[1].pf THEN "parse"
                     ELSE IF decl.stage = "parse" THEN "ok" ELSE decl.stage]
             ex == [sticky |-> UnderFun(ps, h.n, h.mode, inc) /\ ~inc,
                    fail |-> UnderFun(ps2, h.n, h.mode, inc) /\ ~inc,
                    leak |-> OtherEngineBefore(ps, a.eng),
                    imp |-> ParsesNow(ps, h.n, h.mode) /\
                            ImportedForOther(ps, h.n, HRange(a.mods))]
             r == RunEvents(t, s, evs, 1, sn, devs, ex)
         IN RunSteps(t, s + 1,
                     AfterCompile("asbuilt", ps, h.n, h.mode, inc, a.stage, a.eng, HRange(a.mods)),
                     AfterCompile("failsticky", ps2, h.n, h.mode, inc, a.stage, a.eng, HRange(a.mods)),
                     r.seen, r.devs)

Run(t, sn) ==
  IF ~Ordered(t)
  THEN [seen |-> sn,
        devs |-> <<[ShapeDev(t, 1) EXCEPT !.clause = "shape-order"]>>]
  ELSE RunSteps(t, 1, NoProc, NoProc, sn, <<>>)

Init ==
  /\ TLCSet(100, ndJsonDeserialize(IOEnv.TRACE_FILE))
  /\ TLCSet(1, 0)
  /\ pos = 1
  /\ seen = ("$" :> [sql |-> "", aux |-> "", rul |-> "", tid |-> "", step |-> 0])

Next ==
  /\ pos <= Len(Traces)
  /\ LET t == Traces[pos]
         r == Run(t, seen)
         ok == r.devs = <<>>
     IN /\ PrintT(<<"V", ToJson([id |-> t.id, ok |-> ok,
                                 events |-> Len(t.events),
                                 ndev |-> Len(r.devs),
                                 devs |-> r.devs])>>)
        /\ IF ok THEN TRUE ELSE TLCSet(1, TLCGet(1) + 1)
        /\ seen' = r.seen
  /\ pos' = pos + 1

Spec == Init /\ [][Next]_<<pos, seen>>

Accepted == TLCGet(1) = 0 /\ TLCGet("stats").diameter - 1 = Len(Traces)
=============================================================================
