SPECIFICATION Spec
CONSTANT MaxN = 3
INVARIANT PrefixesDistinct
INVARIANT PrefixesNonEmpty
INVARIANT OpenedOnce
INVARIANT StackIsOpen
INVARIANT CycleIsCircular
INVARIANT Refines
INVARIANT OkIsFlatten
CHECK_DEADLOCK FALSE
