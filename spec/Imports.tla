------------------------------- MODULE Imports -------------------------------
(***************************************************************************)
(* C12: import resolution as a state machine (DESIGN.md Appendix A.3),     *)
(* checked against the meaning of ImportsDef.tla for EVERY enumerated      *)
(* import graph, and the exporter of those graphs for the conformance      *)
(* harness (checks/c12.py).                                                *)
(*                                                                         *)
(*   parsed[f]  "absent" | "open" | "done" (+ the prefix given to f)       *)
(*   stack      the recursion of ParseFile: Seq([f, pc])                   *)
(*   outcome    "running" | "ok" | "circular" | "undefined" | "unused" |   *)
(*              "redefinition"                                             *)
(*   rules      the assembled rule set: Seq([file, head, refs])            *)
(* Actions: at an import statement BeginFile | SkipParsed | Circular; at   *)
(* the end of a file RejectImport (undefined / redefinition / unused) or   *)
(* FinishFile (prefix allocation, renaming, assembly); Emit prints the     *)
(* graph with the specification's expectation as JSON for the harness.     *)
(***************************************************************************)
EXTENDS ImportsDef, SequencesExt, Json, IOUtils

CONSTANT MaxN          \* number of imported files (main excluded): 1..3

-----------------------------------------------------------------------------
(* Enumeration of the import graphs.                                       *)
Naming(k) ==
  CASE k = 1 -> << <<"a">>, <<"b">>, <<"c">> >>
    [] k = 2 -> << <<"d1", "util">>, <<"d2", "util">>, <<"a">> >>
    [] k = 3 -> << <<"d1", "sub", "util">>, <<"d1", "util">>, <<"b">> >>
    [] k = 4 -> << <<"b">>, <<"d1", "b">>, <<"a">> >>
    [] k = 5 -> << <<"x", "d1", "util">>, <<"x", "d2", "util">>, <<"a">> >>
Namings == 1..5

(* variant -> (pool of contents, number of import roots) *)
(* 5..8: the pools with a multi-body / disjunctive aggregating predicate *)
(* 9, 10: the pool with functor applications with a constant argument *)
PoolOf(v) == CASE v \in {1, 3} -> 1 [] v \in {2, 4} -> 2
               [] v \in {5, 7} -> 3 [] v \in {6, 8} -> 4 [] v \in {9, 10} -> 5
RootsOf(v) == IF v \in {1, 4, 5, 8, 9} THEN 1 ELSE 2
Variants == 1..4
AggVariants == 5..8

FilesOf(n, nam, nroots) ==
  <<[path |-> <<"main">>, root |-> 1, decoy |-> 0]>> \o
  [i \in 1..n |-> [path |-> Naming(nam)[i],
                   root |-> IF nroots = 2 THEN 1 + (i % 2) ELSE 1, decoy |-> 0]]

Al(t) == "Al" \o ToString(t)
Edge(style, f, j, t) ==
  LET plain == [t |-> t, pred |-> ImOwn(t), alias |-> "", used |-> TRUE]
      al == [t |-> t, pred |-> "Val", alias |-> Al(t), used |-> TRUE]
      ownal == [t |-> t, pred |-> ImOwn(t), alias |-> Al(t), used |-> TRUE]
      valplain == [t |-> t, pred |-> "Val", alias |-> "", used |-> TRUE]
  IN CASE style = 1 -> plain
       [] style = 2 -> al
       [] style = 3 -> IF f = 1 THEN (IF j = 1 THEN valplain ELSE al)
                       ELSE IF (f + j) % 2 = 0 THEN plain ELSE ownal

Adjs(n) == {a \in [1..(n + 1) -> SUBSET (2..(n + 1))] :
              a[1] # {} /\ \A f \in 1..(n + 1) : Cardinality(a[f]) <= 2}

(* `<<>> \o f` turns a lazily evaluated function into a concrete tuple (TLC   *)
(* would otherwise re-evaluate the body at every application).              *)
ImpsOf(n, a, ord, style) ==
  <<>> \o
  [f \in 1..(n + 1) |->
     LET s == IF ord = 1 THEN SetToSortSeq(a[f], LAMBDA x, y : x < y)
              ELSE SetToSortSeq(a[f], LAMBDA x, y : x > y)
     IN <<>> \o [j \in 1..Len(s) |-> Edge(style, f, j, s[j])]]

Mk(n, a, ord, style, nam, v) ==
  [files |-> FilesOf(n, nam, RootsOf(v)), imps |-> ImpsOf(n, a, ord, style),
   pool |-> PoolOf(v), nroots |-> RootsOf(v), hname |-> "Helper"]

(* the main program imports its first file a second time, other predicate *)
Other(i) == IF i.pred = "Val"
            THEN [t |-> i.t, pred |-> ImOwn(i.t), alias |-> "", used |-> TRUE]
            ELSE [t |-> i.t, pred |-> "Val", alias |-> Al(i.t), used |-> TRUE]
Double(g) == [g EXCEPT !.imps[1] = @ \o <<Other(@[1])>>]

(* a second file with the path of f and other contents under the other root: *)
(* files under root 1 keep winning, files under root 2 are now shadowed      *)
Shadow(g, f) == [g EXCEPT !.files[f].decoy = 3 - g.files[f].root]

Inject(g, kind, f, j) ==
  CASE kind = "undefined" -> [g EXCEPT !.imps[f][j].pred = "Nope"]
    [] kind = "unused" -> [g EXCEPT !.imps[f][j].used = FALSE]
    [] kind = "redefinition" ->
         IF g.imps[f][j].alias = ""
         THEN [g EXCEPT !.imps[f][j].pred = ImHelper(g)]
         ELSE [g EXCEPT !.imps[f][j].alias = ImTop(f)]

(* adjacency level: everything reachable from main; cyclic or not *)
RECURSIVE AClose(_, _)
AClose(a, S) == LET T == S \cup UNION {a[f] : f \in S}
                IN IF T = S THEN S ELSE AClose(a, T)
AReachAll(n, a) == AClose(a, {1}) = 1..(n + 1)
ACyclic(n, a) == \E f \in 1..(n + 1) : f \in AClose(a, a[f])
(* The quick tier explores one sixth of the adjacencies over 3 imported     *)
(* files (environment variable C12_SLICE = "0".."5", chosen from the seed); *)
(* "all" (default, thorough tier) explores every adjacency.                 *)
Slice == IF "C12_SLICE" \in DOMAIN IOEnv THEN IOEnv.C12_SLICE ELSE "all"
(* every sixth element (in TLC's fixed enumeration order of the set) *)
Sliced(n, S) ==
  IF n < 3 \/ Slice = "all" THEN S
  ELSE LET q == SetToSeq(S)
       IN {q[i] : i \in {j \in 1..Len(q) : ToString(j % 6) = Slice}}
(* computed once (TLC caches constant definitions without parameters) *)
AcAdjTable == [n \in 1..MaxN |->
                 Sliced(n, {a \in Adjs(n) : AReachAll(n, a) /\ ~ACyclic(n, a)})]
CyAdjTable == [n \in 1..MaxN |->
                 Sliced(n, {a \in Adjs(n) : AReachAll(n, a) /\ ACyclic(n, a)})]
AcAdjs(n) == AcAdjTable[n]
CyAdjs(n) == CyAdjTable[n]
HasPair(n, a) == \E f \in 1..(n + 1) : Cardinality(a[f]) = 2

(* ord = 2 (descending statement order) only differs if some file has 2 imports *)
Acc(N, Ords, Styles, Nams, Vars) ==
  UNION {{Mk(n, a, o, s, m, v) : a \in {x \in AcAdjs(n) : o = 1 \/ HasPair(n, x)},
                                 s \in Styles, m \in Nams, v \in Vars} :
           n \in N, o \in Ords}
Cyc(N, Styles, Nams, Vars) ==
  UNION {{Mk(n, a, 1, s, m, v) : a \in CyAdjs(n), s \in Styles, m \in Nams,
                                 v \in Vars} : n \in N}

(* The enumeration is cut into shards (environment variable C12_SHARD) so  *)
(* that the harness can run them as parallel TLC processes; "all" = union. *)
Shard == IF "C12_SHARD" \in DOMAIN IOEnv THEN IOEnv.C12_SHARD ELSE "all"
Shards == {"acc1", "acc2", "acc3", "acc4", "acc5", "dbl", "cyc1", "cyc2", "cyc3",
           "undefined", "unused", "redefinition", "agg", "shadow", "names", "fun"}

AcceptedN(m) == Acc(1..MaxN, 1..2, 1..3, {m}, Variants)
Doubled == {Double(x) : x \in Acc(1..MaxN, {1}, 1..3, {1, 2}, {1, 2})}
CyclesS(s) == Cyc(1..MaxN, {s}, {1}, {1}) \cup Cyc(1..2, {s}, {2}, {2})
ErrBase == Acc(1..MaxN, {1}, 1..3, {1}, {1, 2})
ErrorsK(k) == UNION {{Inject(x, k, fj[1], fj[2]) : fj \in ImAllImps(x)} : x \in ErrBase}
Fr(S) == {x \in S : ImInFragment(x)}
AggGraphs == Acc(1..MaxN, {1}, 1..3, {1, 2}, AggVariants)
(* every file's private predicate has the same lower-case / underscore /     *)
(* digit / backtick name (table pools: variants 1 and 7)                      *)
PrivateNames == {"helper", "_helper", "h2x", "`helper`"}
NameGraphs == {[x EXCEPT !.hname = h] :
                 x \in Acc(1..MaxN, {1}, 1..3, {1}, {1, 7}), h \in PrivateNames}
(* functor calls with a constant argument in every file; FunX: main also      *)
(* imports Big and Threshold of its first imported file and applies           *)
(* Made<t> := BigI<t>(ThrI<t>: 5) across the import boundary                  *)
FunBase == Acc(1..MaxN, {1}, 1..3, {1, 2}, {9, 10})
FunX(x) == LET t == x.imps[1][1].t
           IN [x EXCEPT !.imps[1] = @ \o
                 <<[t |-> t, pred |-> "Big", alias |-> "BigI" \o ToString(t), used |-> TRUE],
                   [t |-> t, pred |-> "Threshold", alias |-> "ThrI" \o ToString(t), used |-> TRUE]>>]
FunGraphs == FunBase \cup {FunX(x) : x \in FunBase}
Shadowed == UNION {{Shadow(x, f) : f \in 2..ImN(x)} :
                     x \in Acc(1..MaxN, {1}, 1..3, {1, 2}, {2, 3})}

GraphsOf(sh) ==
  CASE sh = "acc1" -> AcceptedN(1) [] sh = "acc2" -> AcceptedN(2)
    [] sh = "acc3" -> AcceptedN(3) [] sh = "acc4" -> AcceptedN(4)
    [] sh = "acc5" -> AcceptedN(5)
    [] sh = "dbl" -> Fr(Doubled)
    [] sh = "cyc1" -> Fr(CyclesS(1)) [] sh = "cyc2" -> Fr(CyclesS(2))
    [] sh = "cyc3" -> Fr(CyclesS(3))
    [] sh \in {"undefined", "unused", "redefinition"} -> Fr(ErrorsK(sh))
    [] sh = "agg" -> AggGraphs
    [] sh = "shadow" -> Fr(Shadowed)
    [] sh = "names" -> NameGraphs
    [] sh = "fun" -> Fr(FunGraphs)
Graphs == IF Shard = "all" THEN UNION {GraphsOf(sh) : sh \in Shards}
          ELSE GraphsOf(Shard)

-----------------------------------------------------------------------------
VARIABLES g, parsed, stack, outcome, opens, rules, emitted
vars == <<g, parsed, stack, outcome, opens, rules, emitted>>

Absent == [st |-> "absent", prefix |-> ""]
Open == [st |-> "open", prefix |-> ""]
Done(p) == [st |-> "done", prefix |-> p]

Init ==
  /\ g \in Graphs
  /\ parsed = [f \in 1..ImN(g) |-> IF f = 1 THEN Open ELSE Absent]
  /\ stack = <<[f |-> 1, pc |-> 1]>>
  /\ outcome = "running"
  /\ opens = [f \in 1..ImN(g) |-> IF f = 1 THEN 1 ELSE 0]
  /\ rules = <<>>
  /\ emitted = FALSE

Top == stack[Len(stack)]
Taken == {parsed[f].prefix : f \in {h \in 2..ImN(g) : parsed[h].st = "done"}}

(* the rules of file f as written: head name and mentioned names *)
RECURSIVE ConjRefs(_)
ConjRefs(c) ==
  CASE c.k = "atom" -> {c.p}
    [] c.k = "unify" -> IF c.r.k = "pcall" THEN {c.r.p} ELSE {}
    [] c.k = "or" -> UNION {UNION {ConjRefs(c.alts[a][i]) : i \in 1..Len(c.alts[a])} :
                              a \in 1..Len(c.alts)}
RuleRefs(r) == UNION {ConjRefs(r.body[i]) : i \in 1..Len(r.body)}
LocalRules(f) ==
  LET ps == ImModule(g, f)
  IN FlattenSeq([i \in 1..Len(ps) |->
                   [j \in 1..Len(ps[i].rules) |->
                      [head |-> ps[i].name, refs |-> RuleRefs(ps[i].rules[j])]]])

(* Renaming as the parser does it: first f's own predicates get f's prefix *)
(* (not for main), then every imported local name becomes                  *)
(* <prefix of the imported file><imported predicate>.                      *)
MRename(f, pref, pp, n) ==
  IF f # 1 /\ n \in ImDefs(g, f) THEN pref \o n
  ELSE LET J == {j \in 1..Len(ImImp(g, f)) : ImLocal(ImImp(g, f)[j]) = n}
       IN IF J = {} THEN n
          ELSE LET j == CHOOSE j \in J : TRUE
               IN pp[ImImp(g, f)[j].t].prefix \o ImImp(g, f)[j].pred

Entries(f, pref, pp) ==
  LET lr == LocalRules(f)
  IN [i \in 1..Len(lr) |->
        [file |-> f, head |-> MRename(f, pref, pp, lr[i].head),
         refs |-> {MRename(f, pref, pp, n) : n \in lr[i].refs}]]

Running == outcome = "running"
AtImport == Running /\ Top.pc <= Len(ImImp(g, Top.f))
AtEnd == Running /\ Top.pc > Len(ImImp(g, Top.f))
Target == ImImp(g, Top.f)[Top.pc].t

BeginFile ==   \* import of a file not seen yet: ParseFile recursion
  /\ AtImport /\ parsed[Target].st = "absent"
  /\ parsed' = [parsed EXCEPT ![Target] = Open]
  /\ stack' = Append(stack, [f |-> Target, pc |-> 1])
  /\ opens' = [opens EXCEPT ![Target] = @ + 1]
  /\ UNCHANGED <<g, outcome, rules, emitted>>

SkipParsed ==  \* the file was parsed before: it is not parsed again
  /\ AtImport /\ parsed[Target].st = "done"
  /\ stack' = [stack EXCEPT ![Len(stack)].pc = @ + 1]
  /\ UNCHANGED <<g, parsed, outcome, opens, rules, emitted>>

Circular ==    \* the file is being parsed further down the stack
  /\ AtImport /\ parsed[Target].st = "open"
  /\ outcome' = "circular"
  /\ UNCHANGED <<g, parsed, stack, opens, rules, emitted>>

ImpKind(f, j) ==
  LET i == ImImp(g, f)[j]
  IN IF i.pred \notin ImDefs(g, i.t) THEN "undefined"
     ELSE IF ImLocal(i) \in ImDefs(g, f) THEN "redefinition"
     ELSE IF ~i.used THEN "unused" ELSE "fine"
BadImps(f) == {j \in 1..Len(ImImp(g, f)) : ImpKind(f, j) # "fine"}

RejectImport ==  \* end of file f: one of its imports is undefined / redefined / unused
  /\ AtEnd /\ BadImps(Top.f) # {}
  /\ outcome' = ImpKind(Top.f, CHOOSE j \in BadImps(Top.f) : \A k \in BadImps(Top.f) : j <= k)
  /\ UNCHANGED <<g, parsed, stack, opens, rules, emitted>>

FinishFile ==    \* end of file f: allocate the prefix, rename, hand the rules over
  /\ AtEnd /\ BadImps(Top.f) = {}
  /\ LET f == Top.f
         pref == IF f = 1 THEN "" ELSE ImPrefix(g.files[f].path, Taken)
         pp == [parsed EXCEPT ![f] = Done(pref)]
     IN /\ parsed' = pp
        /\ rules' = IF f = 1 THEN Entries(f, pref, pp) \o rules
                    ELSE rules \o Entries(f, pref, pp)
        /\ IF f = 1
           THEN stack' = <<>> /\ outcome' = "ok"
           ELSE /\ stack' = [SubSeq(stack, 1, Len(stack) - 1)
                               EXCEPT ![Len(stack) - 1].pc = @ + 1]
                /\ outcome' = outcome
  /\ UNCHANGED <<g, opens, emitted>>

CaseRec ==
  [g |-> g, expect |-> ImExpect(g), machine |-> outcome,
   shapes |-> SetToSeq(ImShapes(g)),
   mods |-> [f \in 1..ImN(g) |-> ImModule(g, f)],
   copies |-> ImCopies(g),
   flat |-> IF ImExpect(g) = "ok" THEN ImFlattenText(g) ELSE [preds |-> <<>>, rec |-> <<>>, makes |-> <<>>],
   main_makes |-> ImCopyModuleMakes(g, 1, TRUE),
   query |-> ImQuery,
   prefixes |-> [f \in 1..ImN(g) |-> parsed[f].prefix]]

Emit ==
  /\ outcome # "running"
  /\ ~emitted
  /\ PrintT(<<"CASE", ToJson(CaseRec)>>)
  /\ emitted' = TRUE
  /\ UNCHANGED <<g, parsed, stack, outcome, opens, rules>>

Next == BeginFile \/ SkipParsed \/ Circular \/ RejectImport \/ FinishFile \/ Emit
Spec == Init /\ [][Next]_vars

-----------------------------------------------------------------------------
(* Invariants.                                                             *)
DoneFiles == {f \in 2..ImN(g) : parsed[f].st = "done"}

PrefixesDistinct ==
  \A f, h \in DoneFiles : f # h => parsed[f].prefix # parsed[h].prefix
PrefixesNonEmpty == \A f \in DoneFiles : parsed[f].prefix # ""
OpenedOnce == \A f \in 1..ImN(g) : opens[f] <= 1
StackIsOpen == \A i \in 1..Len(stack) : parsed[stack[i].f].st = "open"

CycleIsCircular ==
  /\ outcome = "circular" => ImHasCycle(g)
  /\ (outcome # "running" /\ ImHasCycle(g)) => outcome = "circular"

Refines == (outcome # "running" /\ ~emitted) => outcome = ImExpect(g)

(* outcome ok => the rule set is the union over files of Rename_f(rules of *)
(* f), each file once, main's first, and it IS the flattened program up to *)
(* the bijection  unique name of (f, p)  <->  prefix of f ++ p .            *)
MName(fp) == IF fp[1] = 1 THEN fp[2] ELSE parsed[fp[1]].prefix \o fp[2]
Expected(f) ==
  LET lr == LocalRules(f)
  IN [i \in 1..Len(lr) |->
        [file |-> f, head |-> MName(ImResolveFP(g, f, lr[i].head)),
         refs |-> {MName(ImResolveFP(g, f, n)) : n \in lr[i].refs}]]
Count(s, e) == Cardinality({i \in 1..Len(s) : s[i] = e})
AllDefs == {fp \in (1..ImN(g)) \X ({ImHelper(g), "M", "Val", "Agg", "Threshold", "Big", "VeryBig"} \cup {ImOwn(f) : f \in 1..ImN(g)}) :
              fp[2] \in ImDefs(g, fp[1])}
OkIsFlatten ==      \* (the state after Emit differs only in `emitted`)
  (outcome = "ok" /\ ~emitted) =>
    LET exp == FlattenSeq([f \in 1..ImN(g) |-> Expected(f)])
    IN /\ Len(rules) = Len(exp)
       /\ \A i \in 1..Len(exp) : Count(rules, exp[i]) = Count(exp, exp[i])
       /\ \A i \in 1..Len(rules) : (rules[i].file = 1) <=> (i <= Len(Expected(1)))
       /\ \A x, y \in AllDefs : x # y => MName(x) # MName(y)
       /\ \A f \in 1..ImN(g) : parsed[f].st = "done" /\ opens[f] = 1
       \* and the unique names of ImFlatten are in bijection with the machine's
       /\ \A x, y \in AllDefs : (ImU(x[1], x[2]) = ImU(y[1], y[2])) <=> (x = y)
=============================================================================
