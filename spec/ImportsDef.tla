----------------------------- MODULE ImportsDef -----------------------------
(***************************************************************************)
(* The MEANING of a Logica program split over files (property C12).        *)
(*                                                                         *)
(* An import graph g (JSON-friendly; file 1 is always the main program):   *)
(*   g.files  : Seq([path : Seq(STRING), root : 1..2, decoy : 0..2])       *)
(*              path <<"d1","util">> is the file  <root>/d1/util.l ,       *)
(*              imported as  `import d1.util.<Pred>`;  decoy # 0: a SECOND *)
(*              file with the same path and DIFFERENT contents (no imports,*)
(*              other constant) lies under root `decoy`.  Lookup goes over *)
(*              the ordered list of roots: the FIRST root that has the     *)
(*              path wins (ImRealWins).                                    *)
(*   g.imps   : Seq(Seq([t : file index, pred : STRING, alias : STRING,    *)
(*                       used : BOOLEAN]))                                 *)
(*              g.imps[f][j] is the j-th statement of file f:              *)
(*                 import <path of t>.<pred> [as <alias>];                 *)
(*              used = FALSE: no rule of f mentions the imported name      *)
(*   g.pool   : 1..4   which pool of module contents is used (3, 4: every   *)
(*              file has a same-named predicate Agg aggregating over       *)
(*              several rules / over a disjunction, which the parser       *)
(*              rewrites through auxiliary predicates)                     *)
(*   g.nroots : 1..2   number of import roots (LOGICAPATH entries)         *)
(*                                                                         *)
(* Module contents (the pool): EVERY file has a private predicate called   *)
(* Helper holding a constant that differs per file; file f > 1 exports     *)
(* Val (its Helper constant + everything it imports) and Own<f> (Helper    *)
(* constant + 1); the main program defines M the same way as Val.          *)
(*                                                                         *)
(*   ImFilePreds(g, f, Nm)  the predicates of file f (IR of harness/ir.py  *)
(*                          = the program shapes of LSem.tla), every       *)
(*                          predicate name passed through Nm               *)
(*   ImFlatten(g)           the single-file program: every file once,      *)
(*                          every name resolved to a unique name           *)
(*   ImExpect(g)            "ok" or the kind of parsing error              *)
(* All operators are prefixed Im so that the module can be EXTENDed        *)
(* together with LSem.                                                     *)
(***************************************************************************)
EXTENDS Integers, Sequences, FiniteSets, TLC

ImN(g) == Len(g.files)
ImLocal(i) == IF i.alias # "" THEN i.alias ELSE i.pred
ImOwn(f) == "Own" \o ToString(f)
ImTop(f) == IF f = 1 THEN "M" ELSE "Val"
(* File lookup over the ordered roots 1..g.nroots: the copy under the      *)
(* smallest root index is the one that is read.                            *)
ImRealWins(g, f) == f = 1 \/ g.files[f].decoy = 0 \/ g.files[f].root < g.files[f].decoy
ImCopyConst(f, real) == IF f = 1 THEN 7 ELSE IF real THEN 10 * f + 1 ELSE 900 + f
ImCopyImp(g, f, real) == IF real THEN g.imps[f] ELSE <<>>
ImConst(g, f) == ImCopyConst(f, ImRealWins(g, f))
ImImp(g, f) == ImCopyImp(g, f, ImRealWins(g, f))   \* the imports that are read
ImHasAgg(g) == g.pool \in {3, 4}
ImHasFun(g) == g.pool = 5       \* functor application with a constant argument
(* the name of the private predicate every file defines: g.hname if given  *)
(* (lower-case, underscore, digit, backtick forms), else "Helper"           *)
ImHelper(g) == IF "hname" \in DOMAIN g THEN g.hname ELSE "Helper"
ImFunPreds == {"Big", "Threshold"}  \* imported to be used in a functor call only
ImDefs(g, f) == (IF f = 1 THEN {ImHelper(g), "M"} ELSE {ImHelper(g), "Val", ImOwn(f)})
                \cup (IF ImHasAgg(g) THEN {"Agg"} ELSE {})
                \cup (IF ImHasFun(g) THEN {"Threshold", "Big", "VeryBig"} ELSE {})
ImSucc(g, f) == {ImImp(g, f)[j].t : j \in 1..Len(ImImp(g, f))}

RECURSIVE ImClose(_, _)
ImClose(g, S) == LET T == S \cup UNION {ImSucc(g, f) : f \in S}
                 IN IF T = S THEN S ELSE ImClose(g, T)
ImReach(g) == ImClose(g, {1})            \* the files the main program pulls in

-----------------------------------------------------------------------------
(* IR constructors (identical shapes to harness/ir.py).                     *)
ImVar(x) == [k |-> "var", name |-> x]
ImLit(n) == [k |-> "lit", v |-> <<"n", n>>]
ImPlus(a, b) == [k |-> "op", op |-> "+", args |-> <<a, b>>]
ImAtom(p, e) == [k |-> "atom", p |-> p, args |-> <<[f |-> "col0", e |-> e]>>]
ImCall(p) == [k |-> "pcall", p |-> p, args |-> <<>>]
ImUnify(l, r) == [k |-> "unify", l |-> l, r |-> r]
ImHead1(e) == <<[f |-> "col0", e |-> e, agg |-> ""]>>
ImHeadV(e) == <<[f |-> "logica_value", e |-> e, agg |-> ""]>>
ImRule(h, b) == [head |-> h, distinct |-> FALSE, body |-> b]
ImPred(n, rs) == [name |-> n, rules |-> rs, inline |-> FALSE,
                  order |-> <<>>, limit |-> -1]

ImOr(alts) == [k |-> "or", alts |-> alts]
ImHeadAgg(x) == <<[f |-> "col0", e |-> ImLit(1), agg |-> ""],
                  [f |-> "logica_value", e |-> x, agg |-> "Sum"]>>
ImRuleD(h, b) == [head |-> h, distinct |-> TRUE, body |-> b]
ImCall1(p) == [k |-> "pcall", p |-> p, args |-> <<[f |-> "col0", e |-> ImLit(1)]>>]

(* The predicates of one physical copy of file f (real: the module of the  *)
(* graph with its imports; ~real: the decoy), names mapped by Nm.          *)
(*  pool 1,3:  Helper(c);        Top(x) :- Helper(x);                       *)
(*  pool 2,4:  Helper() = c;     Top(x) :- x == Helper();                   *)
(*  all:       Top(x) :- L(x);   for every import whose local name L is used*)
(*             Own<f>(y + 1) :- <y bound to Helper>;         (f > 1 only)   *)
(*  pool 3:    Agg(1) += x :- <x bound to Helper>;                          *)
(*             Agg(1) += y + 1 :- <y bound to Helper>;                      *)
(*             Agg(1) += x :- L(x);              for every used import     *)
(*             Top(x) :- x == Agg(1);                                       *)
(*  pool 4:    the same Agg as ONE rule whose body is the disjunction       *)
(*             (Hx | Hy, x == y + 1 | L(x) | ...)                           *)
ImCopyPreds(g, f, real, Nm(_)) ==
  LET c == ImCopyConst(f, real)
      H == Nm(ImHelper(g))
      fun == g.pool \in {2, 4}
      helper == IF ~fun
                THEN ImPred(H, <<ImRule(ImHead1(ImLit(c)), <<>>)>>)
                ELSE ImPred(H, <<ImRule(ImHeadV(ImLit(c)), <<>>)>>)
      Hx(v) == IF ~fun THEN ImAtom(H, ImVar(v))
               ELSE ImUnify(ImVar(v), ImCall(H))
      us == SelectSeq(ImCopyImp(g, f, real),
                      LAMBDA i : i.used /\ i.pred \notin ImFunPreds)
      fbig == SelectSeq(ImCopyImp(g, f, real), LAMBDA i : i.pred = "Big")
      L(j) == ImAtom(Nm(ImLocal(us[j])), ImVar("x"))
      aggtop == IF ImHasAgg(g)
                THEN <<ImRule(ImHead1(ImVar("x")),
                              <<ImUnify(ImVar("x"), ImCall1(Nm("Agg")))>>)>>
                ELSE <<>>
      top == ImPred(Nm(ImTop(f)),
               <<ImRule(ImHead1(ImVar("x")), <<Hx("x")>>)>> \o
               [j \in 1..Len(us) |-> ImRule(ImHead1(ImVar("x")), <<L(j)>>)] \o
               aggtop \o
               (IF ImHasFun(g)
                THEN <<ImRule(ImHead1(ImVar("x")), <<ImAtom(Nm("VeryBig"), ImVar("x"))>>)>>
                ELSE <<>>) \o
               [j \in 1..Len(fbig) |->
                  ImRule(ImHead1(ImVar("x")),
                         <<ImAtom(Nm("Made" \o ToString(fbig[j].t)), ImVar("x"))>>)])
      \* pool 5:  Threshold() = 0;  Big(x) :- Helper(y), x == y + Threshold();
      funps == IF ImHasFun(g)
             THEN <<ImPred(Nm("Threshold"), <<ImRule(ImHeadV(ImLit(0)), <<>>)>>),
                    ImPred(Nm("Big"),
                      <<ImRule(ImHead1(ImVar("x")),
                          <<Hx("y"), ImUnify(ImVar("x"),
                                ImPlus(ImVar("y"), ImCall(Nm("Threshold"))))>>)>>)>>
             ELSE <<>>
      own == ImPred(Nm(ImOwn(f)),
               <<ImRule(ImHead1(ImPlus(ImVar("y"), ImLit(1))), <<Hx("y")>>)>>)
      agg == IF g.pool = 3
             THEN <<ImPred(Nm("Agg"),
                      <<ImRuleD(ImHeadAgg(ImVar("x")), <<Hx("x")>>),
                        ImRuleD(ImHeadAgg(ImPlus(ImVar("y"), ImLit(1))), <<Hx("y")>>)>> \o
                      [j \in 1..Len(us) |-> ImRuleD(ImHeadAgg(ImVar("x")), <<L(j)>>)])>>
             ELSE IF g.pool = 4
             THEN <<ImPred(Nm("Agg"),
                      <<ImRuleD(ImHeadAgg(ImVar("x")),
                          <<ImOr(<< <<Hx("x")>>,
                                    <<Hx("y"), ImUnify(ImVar("x"), ImPlus(ImVar("y"), ImLit(1)))>> >> \o
                                 [j \in 1..Len(us) |-> <<L(j)>>])>>)>>)>>
             ELSE <<>>
  IN (IF f = 1 THEN <<helper, top>> ELSE <<helper, top, own>>) \o agg \o funps

(* Functor applications of one copy.  pool 5:  VeryBig := Big(Threshold: 4); *)
(* and for every import of another file's Big (with that file's Threshold   *)
(* imported too):  Made<t> := <local Big>(<local Threshold>: 5);            *)
(* Cv(n): how the constant n is written - the text has the number, the      *)
(* semantics (LSem: functor application = predicate substitution) the name  *)
(* of a constant predicate  Const<n>() = n.                                  *)
ImCopyMakes(g, f, real, Nm(_), Cv(_)) ==
  LET imps == ImCopyImp(g, f, real)
      fbig == SelectSeq(imps, LAMBDA i : i.pred = "Big")
      Thr(t) == LET J == {j \in 1..Len(imps) : imps[j].t = t /\ imps[j].pred = "Threshold"}
                IN ImLocal(imps[CHOOSE j \in J : TRUE])
  IN (IF ImHasFun(g)
      THEN <<[name |-> Nm("VeryBig"), functor |-> Nm("Big"),
              args |-> <<[k |-> Nm("Threshold"), v |-> Cv(4)]>>]>>
      ELSE <<>>) \o
     [j \in 1..Len(fbig) |->
        [name |-> Nm("Made" \o ToString(fbig[j].t)), functor |-> Nm(ImLocal(fbig[j])),
         args |-> <<[k |-> Nm(Thr(fbig[j].t)), v |-> Cv(5)]>>]]
ImConstPred(n) == ImPred("Const" \o ToString(n), <<ImRule(ImHeadV(ImLit(n)), <<>>)>>)

ImFilePreds(g, f, Nm(_)) == ImCopyPreds(g, f, ImRealWins(g, f), Nm)

ImModule(g, f) == ImFilePreds(g, f, LAMBDA n : n)   \* the text of the copy of f that is read
ImCopyModule(g, f, real) == ImCopyPreds(g, f, real, LAMBDA n : n)
ImCopyModuleMakes(g, f, real) ==
  ImCopyMakes(g, f, real, LAMBDA n : n, LAMBDA n : ToString(n))
(* all physical files: <<file, root, is the real module, imports, predicates>> *)
ImCopies(g) ==
  LET One(f) == <<[f |-> f, root |-> g.files[f].root, real |-> TRUE,
                   imps |-> g.imps[f], mod |-> ImCopyModule(g, f, TRUE),
                   makes |-> ImCopyModuleMakes(g, f, TRUE)]>> \o
                (IF g.files[f].decoy = 0 THEN <<>>
                 ELSE <<[f |-> f, root |-> g.files[f].decoy, real |-> FALSE,
                         imps |-> <<>>, mod |-> ImCopyModule(g, f, FALSE),
                         makes |-> ImCopyModuleMakes(g, f, FALSE)]>>)
      RECURSIVE Go(_)
      Go(f) == IF f > ImN(g) THEN <<>> ELSE One(f) \o Go(f + 1)
  IN Go(2)

-----------------------------------------------------------------------------
(* Flattening: unique names.  A name mentioned in file f means the         *)
(* imported predicate if f imports something under that name, else f's own *)
(* predicate.  Main keeps its names (they are what the user queries).       *)
ImU(f, p) == IF f = 1 THEN p
             ELSE IF p = "`helper`" THEN "`F" \o ToString(f) \o "_helper`"
             ELSE "F" \o ToString(f) \o "_" \o p

ImResolveFP(g, f, n) ==           \* <<file, predicate of that file>>
  LET J == {j \in 1..Len(ImImp(g, f)) : ImLocal(ImImp(g, f)[j]) = n}
  IN IF J = {} THEN <<f, n>>
     ELSE LET j == CHOOSE j \in J : TRUE
          IN <<ImImp(g, f)[j].t, ImImp(g, f)[j].pred>>
ImResolve(g, f, n) == ImU(ImResolveFP(g, f, n)[1], ImResolveFP(g, f, n)[2])

RECURSIVE ImConcat(_, _, _)
ImConcat(g, f, n) ==
  IF f > n THEN <<>>
  ELSE (IF f \in ImReach(g)
        THEN ImFilePreds(g, f, LAMBDA x : ImResolve(g, f, x)) ELSE <<>>)
       \o ImConcat(g, f + 1, n)

ImCv(text, n) == IF text THEN ToString(n) ELSE "Const" \o ToString(n)
RECURSIVE ImConcatMakes(_, _, _, _)
ImConcatMakes(g, f, n, text) ==
  IF f > n THEN <<>>
  ELSE (IF f \in ImReach(g)
        THEN ImCopyMakes(g, f, ImRealWins(g, f), LAMBDA x : ImResolve(g, f, x),
                         LAMBDA c : ImCv(text, c))
        ELSE <<>>)
       \o ImConcatMakes(g, f + 1, n, text)

(* the meaning (for LSem): constants of functor calls are constant predicates *)
ImFlatten(g) ==
  LET mk == ImConcatMakes(g, 1, ImN(g), FALSE)
      cs == {4, 5} \cap {c \in {4, 5} : \E i \in 1..Len(mk) : mk[i].args[1].v = "Const" \o ToString(c)}
  IN [preds |-> ImConcat(g, 1, ImN(g)) \o
                (IF 4 \in cs THEN <<ImConstPred(4)>> ELSE <<>>) \o
                (IF 5 \in cs THEN <<ImConstPred(5)>> ELSE <<>>),
      rec |-> <<>>, makes |-> mk]
(* the hand-flattened program as TEXT: the same, constants written as numbers *)
ImFlattenText(g) ==
  [preds |-> ImConcat(g, 1, ImN(g)), rec |-> <<>>,
   makes |-> ImConcatMakes(g, 1, ImN(g), TRUE)]

(* main's observed predicate: M unions main's own Helper with everything  *)
(* imported, so any collision of a Helper shows in its rows                *)
ImQuery == <<"M">>

-----------------------------------------------------------------------------
(* Error graphs.                                                           *)
ImHasCycle(g) == \E f \in ImReach(g) : f \in ImClose(g, ImSucc(g, f))
ImAllImps(g) == LET R == ImReach(g)
                IN {fj \in (1..ImN(g)) \X (1..4) :
                      fj[1] \in R /\ fj[2] <= Len(ImImp(g, fj[1]))}
ImI(g, fj) == ImImp(g, fj[1])[fj[2]]
ImUndefinedIn(g, A) == \E fj \in A : ImI(g, fj).pred \notin ImDefs(g, ImI(g, fj).t)
ImRedefIn(g, A) == \E fj \in A : ImLocal(ImI(g, fj)) \in ImDefs(g, fj[1])
ImUnusedIn(g, A) == \E fj \in A : ~ImI(g, fj).used
ImUndefined(g) == ImUndefinedIn(g, ImAllImps(g))
ImRedef(g) == ImRedefIn(g, ImAllImps(g))
ImUnused(g) == ImUnusedIn(g, ImAllImps(g))

ImExpect(g) ==
  LET A == ImAllImps(g) IN
  IF ImHasCycle(g) THEN "circular"
  ELSE IF ImUndefinedIn(g, A) THEN "undefined"
  ELSE IF ImRedefIn(g, A) THEN "redefinition"
  ELSE IF ImUnusedIn(g, A) THEN "unused"
  ELSE "ok"

(* Outside the property: two imports of one file under the same local name *)
(* (the program is ambiguous), more than one kind of error at once.         *)
ImInFragment(g) ==
  LET A == ImAllImps(g) IN
  /\ ImReach(g) = 1..ImN(g)
  /\ \A f \in 1..ImN(g) : \A j, k \in 1..Len(ImImp(g, f)) :
        j # k => ImLocal(ImImp(g, f)[j]) # ImLocal(ImImp(g, f)[k])
  /\ Cardinality({k \in 1..4 :
         \/ k = 1 /\ ImHasCycle(g)
         \/ k = 2 /\ ImUndefinedIn(g, A)
         \/ k = 3 /\ ImRedefIn(g, A)
         \/ k = 4 /\ ImUnusedIn(g, A)}) <= 1
  /\ \A f, h \in 1..ImN(g) : f # h => g.files[f].path # g.files[h].path
  /\ \A f \in 1..ImN(g) :
        g.files[f].decoy # 0 =>
          f # 1 /\ g.files[f].decoy \in 1..g.nroots /\ g.files[f].decoy # g.files[f].root

-----------------------------------------------------------------------------
(* Shapes (coverage).                                                      *)
ImLast(s) == s[Len(s)]
ImImporters(g, t) == {f \in ImReach(g) : t \in ImSucc(g, f)}
ImSharesBase(g) == \E f, h \in ImReach(g) \ {1} :
                      f # h /\ ImLast(g.files[f].path) = ImLast(g.files[h].path)
ImShapes(g) ==
  LET R == ImReach(g) IN
  (IF \E f \in R \ {1} : ImImp(g, f) # <<>> THEN {"chain"} ELSE {}) \cup
  (IF \E t \in R : Cardinality(ImImporters(g, t)) >= 2 THEN {"diamond"} ELSE {}) \cup
  (IF \E f \in R : Cardinality(ImSucc(g, f)) < Len(ImImp(g, f)) THEN {"double_import"} ELSE {}) \cup
  (IF ImSharesBase(g) THEN {"same_base_name"} ELSE {}) \cup
  (IF \E fj \in ImAllImps(g) : ImI(g, fj).alias # "" THEN {"alias"} ELSE {}) \cup
  (IF \E fj \in ImAllImps(g) : ImI(g, fj).alias = "" THEN {"no_alias"} ELSE {}) \cup
  (IF g.nroots = 2 /\ {g.files[f].root : f \in R \ {1}} = {1, 2} THEN {"two_roots"} ELSE {}) \cup
  (IF g.pool \in {2, 4} THEN {"functional_helper"} ELSE {"table_helper"}) \cup
  (IF g.pool = 3 THEN {"agg_multi_rule"} ELSE {}) \cup
  (IF ImHasFun(g) /\ R # {1} THEN {"functor_const_in_module"} ELSE {}) \cup
  (IF \E fj \in ImAllImps(g) : ImI(g, fj).pred = "Big" THEN {"functor_const_across_import"} ELSE {}) \cup
  (IF ImHelper(g) # "Helper" THEN {"lowercase_private"} ELSE {}) \cup
  (IF \E fj \in ImAllImps(g) : fj[1] # 1 /\ ImLocal(ImI(g, fj)) \in ImDefs(g, fj[1])
   THEN {"redefinition_in_module"} ELSE {}) \cup
  (IF g.pool = 4 THEN {"agg_disjunction"} ELSE {}) \cup
  (IF \E f \in R : g.files[f].decoy # 0 /\ ImRealWins(g, f) THEN {"shadow_real_first"} ELSE {}) \cup
  (IF \E f \in R : ~ImRealWins(g, f) THEN {"shadow_decoy_first"} ELSE {}) \cup
  {ImExpect(g)}

-----------------------------------------------------------------------------
(* What the prefix allocation is FOR (implementation-shaped; only used for *)
(* the state machine and for MODEL-DRIFT information): the shortest        *)
(* rendering  part[k] .. part[n-1] Cap(part[n]) "_"  that is not taken.      *)
ImCap(s) == CASE s = "a" -> "A" [] s = "b" -> "B" [] s = "c" -> "C"
              [] s = "util" -> "Util" [] OTHER -> s
RECURSIVE ImCand(_, _)
ImCand(parts, k) == IF k = 1 THEN ImCap(parts[Len(parts)]) \o "_"
                    ELSE parts[Len(parts) - k + 1] \o ImCand(parts, k - 1)
RECURSIVE ImFresh(_, _)
ImFresh(p, taken) == IF p \notin taken THEN p ELSE ImFresh("X" \o p, taken)
ImPrefix(parts, taken) ==
  LET K == {k \in 1..Len(parts) : ImCand(parts, k) \notin taken}
  IN IF K # {} THEN ImCand(parts, CHOOSE k \in K : \A m \in K : k <= m)
     ELSE ImFresh(ImCand(parts, Len(parts)), taken)
=============================================================================
