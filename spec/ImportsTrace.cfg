SPECIFICATION Spec
POSTCONDITION Judged
CHECK_DEADLOCK FALSE
