---------------------------- MODULE ImportsTrace ----------------------------
(***************************************************************************)
(* C12, code -> spec: validates what the REAL pipeline did with an import  *)
(* graph against the meaning of ImportsDef.tla and the semantics of LSem.  *)
(* Input: ndjson ($TRACE_FILE), one observation per line:                  *)
(*   [id, parser, g,                    the graph exactly as Imports.tla    *)
(*                                      exported it                        *)
(*    status : "ok" | "diag" | other,   parsed and ran | ParsingException | *)
(*                                      anything else (internal error...)   *)
(*    obs    : Seq([p, rows]),          rows SQLite returned for main's p   *)
(*    heads  : Seq(STRING)]             head predicate of every rule of     *)
(*                                      ParseFile(main)['rule'] (no @...)   *)
(* Verdict per line (printed as <<"V", json>>):                            *)
(*   expect = ImExpect(g);  if "ok":                                       *)
(*     accept      the program was accepted and ran                        *)
(*     rows        rows of main's M = Den(ImFlatten(g))  (bags)            *)
(*     rules_once  every file's rules are in the rule set exactly once:    *)
(*                 the number of rules, the number of distinct predicates  *)
(*                 and the histogram of rules-per-predicate are those of   *)
(*                 the flattened program; main's predicates keep their     *)
(*                 names (nothing is said about the names of the others)   *)
(*   else  reject  a parsing diagnostic, not an internal error and not     *)
(*                 acceptance                                              *)
(***************************************************************************)
EXTENDS LSem, ImportsDef, Json, IOUtils, TLCExt

Cases == ndJsonDeserialize(IOEnv.TRACE_FILE)

VARIABLE i

ObsCount(heads, h) == Cardinality({k \in 1..Len(heads) : heads[k] = h})
ObsNames(heads) == {heads[k] : k \in 1..Len(heads)}

FlatPreds(g) == ImFlatten(g).preds
RulesOnce(g, heads) ==
  LET fp == FlatPreds(g)
      main == ImModule(g, 1)
      maxc == 8
  IN /\ Len(heads) = FoldLeft(LAMBDA acc, p : acc + Len(p.rules), 0, fp)
     /\ Cardinality(ObsNames(heads)) = Len(fp)
     /\ \A n \in 1..maxc :
          Cardinality({h \in ObsNames(heads) : ObsCount(heads, h) = n}) =
          Cardinality({k \in 1..Len(fp) : Len(fp[k].rules) = n})
     /\ \A h \in ObsNames(heads) : ObsCount(heads, h) <= maxc
     /\ \A k \in 1..Len(main) : ObsCount(heads, main[k].name) = Len(main[k].rules)

(* Bag equality by counting (LSem!BagMatch backtracks, which is exponential *)
(* on a mismatch with many equal rows; the rows here are plain integers,   *)
(* for which RowMatch is an equivalence, so counting is exact).            *)
BagEq(es, os) ==
  /\ Len(es) = Len(os)
  /\ \A k \in 1..Len(es) :
        Cardinality({j \in 1..Len(es) : es[j] = es[k]}) =
        Cardinality({j \in 1..Len(os) : RowMatch(es[k], os[j])})

RowsOk(g, obs) ==
  LET den == Den(ImFlatten(g))
  IN /\ {obs[k].p : k \in 1..Len(obs)} = {ImQuery[k] : k \in 1..Len(ImQuery)}
     /\ \A k \in 1..Len(obs) : BagEq(den[obs[k].p], obs[k].rows)

Verdict(c) ==
  LET g == c.g
      exp == ImExpect(g)
      clause ==
        IF ~ImInFragment(g) THEN "not_in_fragment"
        ELSE IF exp = "ok"
        THEN IF c.status # "ok" THEN "accept"
             ELSE IF ~RowsOk(g, c.obs) THEN "rows"
             ELSE IF ~RulesOnce(g, c.heads) THEN "rules_once"
             ELSE "ok"
        ELSE IF c.status # "diag" THEN "reject" ELSE "ok"
  IN [id |-> c.id, parser |-> c.parser, expect |-> exp, ok |-> clause = "ok",
      clause |-> clause, shares_base |-> ImSharesBase(g),
      exp_rows |-> IF clause = "rows" THEN Den(ImFlatten(g))["M"] ELSE <<>>]

Init == i = 1 /\ TLCSet(1, 0)

Next ==
  /\ i <= Len(Cases)
  /\ LET v == Verdict(Cases[i])
     IN /\ PrintT(<<"V", ToJson(v)>>)
        /\ IF v.ok THEN TRUE ELSE TLCSet(1, TLCGet(1) + 1)
  /\ i' = i + 1

Spec == Init /\ [][Next]_i

(* every observation judged; the harness reads the verdict lines (a bad   *)
(* verdict is classified there: violation or listed known finding)        *)
Judged == TLCGet("stats").diameter - 1 = Len(Cases)
=============================================================================
