---------------------------- MODULE ImportsTrace ----------------------------
(***************************************************************************)
(* C12, code -> spec: validates what the REAL pipeline did with an import  *)
(* graph against the meaning of ImportsDef.tla and the semantics of LSem.  *)
(* Input: ndjson ($TRACE_FILE), one observation per line:                  *)
(*   [id, parser, g,                    the graph exactly as Imports.tla    *)
(*                                      exported it                        *)
(*    status : "ok" | "diag" | other,   parsed and ran | ParsingException | *)
(*                                      anything else (internal error...)   *)
(*    obs    : Seq([p, rows]),          rows SQLite returned for main's p   *)
(*    heads  : Seq(STRING),             head predicate of every rule of     *)
(*                                      ParseFile(main)['rule'] (no @...)   *)
(*    flat_heads : Seq(STRING)]         the same for the one-file text of   *)
(*                                      ImFlatten(g), same parser           *)
(* Verdict per line (printed as <<"V", json>>):                            *)
(*   expect = ImExpect(g);  if "ok":                                       *)
(*     accept      the program was accepted and ran                        *)
(*     rows        rows of main's M = Den(ImFlatten(g))  (bags)            *)
(*     rules_once  every file's rules are in the rule set exactly once:    *)
(*                 the number of rules, the number of distinct predicates  *)
(*                 and the histogram of rules-per-predicate are those of   *)
(*                 the flattened program (as the same parser parses it,    *)
(*                 and for the pools the parser does not rewrite also as   *)
(*                 the specification counts them); main's predicates keep  *)
(*                 their names (nothing is said about the other names)     *)
(*   else  reject  a parsing diagnostic, not an internal error and not     *)
(*                 acceptance                                              *)
(***************************************************************************)
EXTENDS LSem, ImportsDef, Json, IOUtils, TLCExt

Cases == ndJsonDeserialize(IOEnv.TRACE_FILE)

VARIABLE i

ObsCount(heads, h) == Cardinality({k \in 1..Len(heads) : heads[k] = h})
ObsNames(heads) == {heads[k] : k \in 1..Len(heads)}

FlatPreds(g) == ImFlatten(g).preds
Hist(heads, n) == Cardinality({h \in ObsNames(heads) : ObsCount(heads, h) = n})
MaxC == 12

(* against the specification's own count (pools whose rules the parser      *)
(* keeps as they are)                                                       *)
SpecRulesOnce(g, heads) ==
  LET fp == FlatPreds(g)
  IN /\ Len(heads) = FoldLeft(LAMBDA acc, p : acc + Len(p.rules), 0, fp)
     /\ Cardinality(ObsNames(heads)) = Len(fp)
     /\ \A n \in 1..MaxC :
          Hist(heads, n) = Cardinality({k \in 1..Len(fp) : Len(fp[k].rules) = n})

(* against the rule set the SAME parser makes of the hand-flattened program *)
(* (text of ImFlatten(g)): whatever the parser rewrites (auxiliary          *)
(* predicates of multi-body aggregation, disjunctive normal form) it must    *)
(* rewrite the same way in both, up to the names of imported predicates      *)
FlatRulesOnce(g, heads, flat) ==
  LET main == ImModule(g, 1)
  IN /\ Len(heads) = Len(flat)
     /\ Cardinality(ObsNames(heads)) = Cardinality(ObsNames(flat))
     /\ \A n \in 1..MaxC : Hist(heads, n) = Hist(flat, n)
     /\ \A h \in ObsNames(heads) : ObsCount(heads, h) <= MaxC
     /\ \A h \in ObsNames(flat) : ObsCount(flat, h) <= MaxC
     /\ \A k \in 1..Len(main) :
          /\ ObsCount(heads, main[k].name) = ObsCount(flat, main[k].name)
          /\ ObsCount(heads, main[k].name) >= 1
     \* every predicate of the flattened program is there
     /\ Cardinality(ObsNames(flat)) >= Len(ImFlattenText(g).preds)

RulesOnce(g, heads, flat) ==
  /\ FlatRulesOnce(g, heads, flat)
  /\ (g.pool <= 2) => (SpecRulesOnce(g, heads) /\ SpecRulesOnce(g, flat))

(* Bag equality by counting (LSem!BagMatch backtracks, which is exponential *)
(* on a mismatch with many equal rows; the rows here are plain integers,   *)
(* for which RowMatch is an equivalence, so counting is exact).            *)
BagEq(es, os) ==
  /\ Len(es) = Len(os)
  /\ \A k \in 1..Len(es) :
        Cardinality({j \in 1..Len(es) : es[j] = es[k]}) =
        Cardinality({j \in 1..Len(os) : RowMatch(es[k], os[j])})

RowsOk(g, obs) ==
  LET den == Den(ImFlatten(g))
  IN /\ {obs[k].p : k \in 1..Len(obs)} = {ImQuery[k] : k \in 1..Len(ImQuery)}
     /\ \A k \in 1..Len(obs) : BagEq(den[obs[k].p], obs[k].rows)

Verdict(c) ==
  LET g == c.g
      exp == ImExpect(g)
      clause ==
        IF ~ImInFragment(g) THEN "not_in_fragment"
        ELSE IF exp = "ok"
        THEN IF c.status # "ok" THEN "accept"
             ELSE IF ~RowsOk(g, c.obs) THEN "rows"
             ELSE IF ~RulesOnce(g, c.heads, c.flat_heads) THEN "rules_once"
             ELSE "ok"
        ELSE IF c.status # "diag" THEN "reject" ELSE "ok"
  IN [id |-> c.id, parser |-> c.parser, expect |-> exp, ok |-> clause = "ok",
      clause |-> clause, shares_base |-> ImSharesBase(g),
      exp_rows |-> IF clause = "rows" THEN Den(ImFlatten(g))["M"] ELSE <<>>]

Init == i = 1 /\ TLCSet(1, 0)

Next ==
  /\ i <= Len(Cases)
  /\ LET v == Verdict(Cases[i])
     IN /\ PrintT(<<"V", ToJson(v)>>)
        /\ IF v.ok THEN TRUE ELSE TLCSet(1, TLCGet(1) + 1)
  /\ i' = i + 1

Spec == Init /\ [][Next]_i

(* every observation judged; the harness reads the verdict lines (a bad   *)
(* verdict is classified there: violation or listed known finding)        *)
Judged == TLCGet("stats").diameter - 1 = Len(Cases)
=============================================================================
