SPECIFICATION Spec
CONSTANT MaxN = 2
INVARIANT PrefixesDistinct
INVARIANT PrefixesNonEmpty
INVARIANT OpenedOnce
INVARIANT StackIsOpen
INVARIANT CycleIsCircular
INVARIANT Refines
INVARIANT OkIsFlatten
CHECK_DEADLOCK FALSE
