SPECIFICATION Spec
CONSTANTS MaxCover = 5
MaxDepth = 60
INVARIANT NoMixed
INVARIANT FinalGeneration
INVARIANT BelowIgnition
PROPERTY Terminates
CHECK_DEADLOCK FALSE
