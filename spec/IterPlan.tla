------------------------------ MODULE IterPlan ------------------------------
(***************************************************************************)
(* Iterative execution of a recursive group, abstracted to GENERATIONS     *)
(* (DESIGN Appendix A.2).  The content of a table is abstracted to the     *)
(* number g of simultaneous applications it holds the result of (T^g of    *)
(* the empty relations, projected on the member that owns the table), or   *)
(* Mixed when it was computed from inputs of different generations.        *)
(*                                                                         *)
(* Abstract part (verdict level, used by IterPlanTrace): a statement       *)
(*   w := Step(r1 .. rk)                                                   *)
(* maps coherent inputs (all of generation g; no input at all counts as    *)
(* generation 0 = nil) to generation g+1 and anything else to Mixed.       *)
(* Properties: NoMixed, and the table behind the user-visible predicate    *)
(* holds generation depth+1.                                               *)
(*                                                                         *)
(* Implementation-shaped part (this module's own state machine): the plan  *)
(* recursion_library.GetFlatIterativeRecursionFunctor derives - ignition   *)
(* steps ifr0..ifr(ign-1) per member, ifr(ign-2) stored in the table of    *)
(* ifr(ign-4), the iteration [ifr(ign-3) ; ifr(ign-2)] repeated            *)
(* R = (depth + 1 - ign) div 2 + 1 times (at least once), then             *)
(* ifr(ign-1).  TLC checks for all group sizes 1..MaxCover and depths      *)
(* 0..MaxDepth that the plan is coherent and ends at generation depth+1    *)
(* whenever depth + 1 >= ign (FinalGeneration), and reports what happens   *)
(* below that (BelowIgnition: ign applications - the known finding         *)
(* F-C03-iterative-below-ignition).                                        *)
(***************************************************************************)
EXTENDS Integers, Sequences, FiniteSets, TLC

CONSTANTS MaxCover, MaxDepth

Mixed == -1
None == -2

(* generation produced by a step from the generations of the tables it reads *)
StepGen(reads) ==
  IF reads = {} THEN 1
  ELSE IF Mixed \in reads \/ None \in reads \/ Cardinality(reads) > 1 THEN Mixed
  ELSE (CHOOSE g \in reads : TRUE) + 1

Ignition(cover, depth) ==
  LET base == cover + 3 IN IF base % 2 = depth % 2 THEN base + 1 ELSE base

Repetitions(cover, depth) ==
  LET r == ((depth + 1 - Ignition(cover, depth)) \div 2) + 1 IN IF r < 1 THEN 1 ELSE r

VARIABLES cover, depth,
          tbl,     \* table index -> generation (tables are shared by all members:
                   \* flat unfolding is symmetric in the members)
          pc,      \* "ignite" | "iterate" | "final" | "done"
          i,       \* next ignition step
          round,   \* completed iteration rounds
          half     \* "upper" | "lower"

vars == <<cover, depth, tbl, pc, i, round, half>>

Ign == Ignition(cover, depth)
(* table that step k writes: step ign-2 is grounded onto the table of ign-4 *)
TableOf(k) == IF k = Ign - 2 THEN Ign - 4 ELSE k
ReadsOf(k) == IF k = 0 THEN {} ELSE {tbl[TableOf(k - 1)]}

Init ==
  /\ cover \in 1..MaxCover /\ depth \in 0..MaxDepth
  /\ tbl = [k \in -1..(MaxCover + 5) |-> None]
  /\ pc = "ignite" /\ i = 0 /\ round = 0 /\ half = "upper"

(* ignition steps 0 .. ign-4 run once, in order *)
Ignite ==
  /\ pc = "ignite"
  /\ IF i <= Ign - 4
     THEN /\ tbl' = [tbl EXCEPT ![TableOf(i)] = StepGen(ReadsOf(i))]
          /\ i' = i + 1 /\ UNCHANGED <<pc, round, half>>
     ELSE /\ pc' = "iterate" /\ UNCHANGED <<tbl, i, round, half>>
  /\ UNCHANGED <<cover, depth>>

Iterate ==
  /\ pc = "iterate"
  /\ IF round < Repetitions(cover, depth)
     THEN IF half = "upper"
          THEN /\ tbl' = [tbl EXCEPT ![TableOf(Ign - 3)] = StepGen(ReadsOf(Ign - 3))]
               /\ half' = "lower" /\ UNCHANGED <<round, pc>>
          ELSE /\ tbl' = [tbl EXCEPT ![TableOf(Ign - 2)] = StepGen(ReadsOf(Ign - 2))]
               /\ half' = "upper" /\ round' = round + 1 /\ UNCHANGED pc
     ELSE /\ pc' = "final" /\ UNCHANGED <<tbl, round, half>>
  /\ UNCHANGED <<cover, depth, i>>

Final ==
  /\ pc = "final"
  /\ tbl' = [tbl EXCEPT ![TableOf(Ign - 1)] = StepGen(ReadsOf(Ign - 1))]
  /\ pc' = "done"
  /\ UNCHANGED <<cover, depth, i, round, half>>

Next == Ignite \/ Iterate \/ Final
Spec == Init /\ [][Next]_vars /\ WF_vars(Next)

NoMixed == \A k \in DOMAIN tbl : tbl[k] # Mixed

FinalGeneration ==
  (pc = "done" /\ depth + 1 >= Ign) => tbl[TableOf(Ign - 1)] = depth + 1

(* what the plan does below the ignition length: one pass over everything *)
BelowIgnition ==
  (pc = "done" /\ depth + 1 < Ign) => tbl[TableOf(Ign - 1)] = Ign

Terminates == <>(pc = "done")
=============================================================================
