-------------------------------- MODULE LLex --------------------------------
(***************************************************************************)
(* Logica's lexical layer, as docs/syntax.md (and the string forms the     *)
(* language accepts) define it, as an automaton over code points.          *)
(*                                                                         *)
(*   "..."       to the next ", no escapes, no newline inside              *)
(*   '...'       backslash screens the next character                      *)
(*   triple-quoted raw text up to the first closing triple quote           *)
(*   `...`       backticked name                                           *)
(*   # ...       comment to the end of the line (the newline stays)        *)
(*   /* ... */   comment to the first closing marker                       *)
(*   ( [ {       bracket stack, counted only outside strings and comments  *)
(*                                                                         *)
(* Outputs of a scan (Scan): the text with comments removed (out), for     *)
(* every kept character whether it belongs to a literal (mask: 0 code,     *)
(* 2 first character of a literal, 1 inside a literal) and the bracket     *)
(* depth (dep), the final mode / bracket stack / error.  Derived:          *)
(*   Clean(text), Statements(text) (split at depth-0 ';' and stripped),    *)
(*   Tokens(text) (token texts; whitespace and comments separate nothing   *)
(*   but themselves), Decode(literal) (the value a literal denotes).       *)
(*                                                                         *)
(* The second half is a state machine over *layouts* of a token sequence:  *)
(* noise-insertion actions (space, newline, # comment, block comment at a  *)
(* token boundary; redundant parentheses around a range; trailing ';').    *)
(* Model theorem (invariant TokensPreserved, checked by TLC on every       *)
(* reachable layout of every given token sequence): noise insertion leaves *)
(* Tokens unchanged.  Each reachable layout is exported as a placement for *)
(* the conformance harness.                                                *)
(***************************************************************************)
EXTENDS Naturals, Sequences, FiniteSets, TLC, Json, IOUtils

NL == 10  TAB == 9  CR == 13  SP == 32  VT == 11  FF == 12
QUOTE == 34  HASH == 35  APOS == 39  LP == 40  RP == 41  STAR == 42
SLASH == 47  SEMI == 59  LB == 91  BSL == 92  RB == 93  BT == 96
LC == 123  RC == 125

IsSpace(c) == c \in {SP, NL, TAB, CR, VT, FF}   \* ASCII layout characters
IsWord(c)  == \/ (c >= 48 /\ c <= 57) \/ (c >= 65 /\ c <= 90)
              \/ (c >= 97 /\ c <= 122) \/ c = 95 \/ c = 64 \/ c = 36
Opening == {LP, LB, LC}
Closing == {RP, RB, RC}
OpenOf(c) == IF c = RP THEN LP ELSE IF c = RB THEN LB ELSE LC

-----------------------------------------------------------------------------
(* The scanner.  Modes: 0 code, 1 "..." (dq), 2 '...' (sq), 3 triple-quoted *)
(* (tq), 4 backticks (bt), 5 # comment (hash), 6 block comment.            *)
(* Accumulators: br bracket stack, out kept characters, mask / dep per     *)
(* kept character.  Result: [m, br, out, mask, dep, err].                  *)
At(text, i) == IF i >= 1 /\ i <= Len(text) THEN text[i] ELSE 0
Special == {HASH, SLASH, QUOTE, APOS, BT, LP, RP, LB, RB, LC, RC}

Result(m, br, out, mask, dep, err) ==
  [m |-> m, br |-> br, out |-> out, mask |-> mask, dep |-> dep, err |-> err]

RECURSIVE ScanFrom(_, _, _, _, _, _, _)
ScanFrom(text, i, m, br, out, mask, dep) ==
  IF i > Len(text) THEN Result(m, br, out, mask, dep, "")
  ELSE
    LET c == text[i]
        d == Len(br)
    IN
    IF m = 0 THEN
      IF c \notin Special
        THEN ScanFrom(text, i + 1, 0, br, Append(out, c), Append(mask, 0),
                      Append(dep, d))
      ELSE IF c = HASH THEN ScanFrom(text, i + 1, 5, br, out, mask, dep)
      ELSE IF c = SLASH
        THEN IF At(text, i + 1) = STAR
               THEN ScanFrom(text, i + 2, 6, br, out, mask, dep)
               ELSE ScanFrom(text, i + 1, 0, br, Append(out, c),
                             Append(mask, 0), Append(dep, d))
      ELSE IF c = QUOTE
        THEN IF At(text, i + 1) = QUOTE /\ At(text, i + 2) = QUOTE
               THEN ScanFrom(text, i + 3, 3, br, out \o <<c, c, c>>,
                             mask \o <<2, 1, 1>>, dep \o <<d, d, d>>)
               ELSE ScanFrom(text, i + 1, 1, br, Append(out, c),
                             Append(mask, 2), Append(dep, d))
      ELSE IF c = APOS
        THEN ScanFrom(text, i + 1, 2, br, Append(out, c), Append(mask, 2),
                      Append(dep, d))
      ELSE IF c = BT
        THEN ScanFrom(text, i + 1, 4, br, Append(out, c), Append(mask, 2),
                      Append(dep, d))
      ELSE IF c \in Opening
        THEN ScanFrom(text, i + 1, 0, Append(br, c), Append(out, c),
                      Append(mask, 0), Append(dep, d + 1))
      ELSE \* closing bracket
        IF d > 0 /\ br[d] = OpenOf(c)
          THEN ScanFrom(text, i + 1, 0, SubSeq(br, 1, d - 1), Append(out, c),
                        Append(mask, 0), Append(dep, d - 1))
          ELSE Result(m, br, out, mask, dep, "Unmatched")
    ELSE IF m = 5 THEN
      IF c = NL THEN ScanFrom(text, i + 1, 0, br, Append(out, c),
                              Append(mask, 0), Append(dep, d))
      ELSE ScanFrom(text, i + 1, 5, br, out, mask, dep)
    ELSE IF m = 6 THEN
      IF c = STAR /\ At(text, i + 1) = SLASH
        THEN ScanFrom(text, i + 2, 0, br, out, mask, dep)
        ELSE ScanFrom(text, i + 1, 6, br, out, mask, dep)
    ELSE IF m = 1 THEN
      IF c = QUOTE THEN ScanFrom(text, i + 1, 0, br, Append(out, c),
                                 Append(mask, 1), Append(dep, d))
      ELSE IF c = NL THEN Result(m, br, out, mask, dep, "EOL in string")
      ELSE ScanFrom(text, i + 1, 1, br, Append(out, c), Append(mask, 1),
                    Append(dep, d))
    ELSE IF m = 2 THEN
      IF c = BSL /\ i < Len(text)
        THEN ScanFrom(text, i + 2, 2, br, out \o <<c, text[i + 1]>>,
                      mask \o <<1, 1>>, dep \o <<d, d>>)
      ELSE IF c = APOS
        THEN ScanFrom(text, i + 1, 0, br, Append(out, c), Append(mask, 1),
                      Append(dep, d))
      ELSE ScanFrom(text, i + 1, 2, br, Append(out, c), Append(mask, 1),
                    Append(dep, d))
    ELSE IF m = 3 THEN
      IF c = QUOTE /\ At(text, i + 1) = QUOTE /\ At(text, i + 2) = QUOTE
        THEN ScanFrom(text, i + 3, 0, br, out \o <<c, c, c>>,
                      mask \o <<1, 1, 1>>, dep \o <<d, d, d>>)
        ELSE ScanFrom(text, i + 1, 3, br, Append(out, c), Append(mask, 1),
                      Append(dep, d))
    ELSE \* m = 4, backticks
      IF c = BT THEN ScanFrom(text, i + 1, 0, br, Append(out, c),
                              Append(mask, 1), Append(dep, d))
      ELSE ScanFrom(text, i + 1, 4, br, Append(out, c), Append(mask, 1),
                    Append(dep, d))

Scan(text) == ScanFrom(text, 1, 0, <<>>, <<>>, <<>>, <<>>)

Clean(text) == Scan(text).out
(* "whole": everything that was opened has been closed                     *)
Whole(text) == LET s == Scan(text) IN
               s.err = "" /\ s.br = <<>> /\ s.m \in {0, 5}

-----------------------------------------------------------------------------
(* Statements: the cleaned text split at every ';' that is outside         *)
(* literals and brackets, each part stripped of surrounding whitespace;    *)
(* empty parts are not statements.                                         *)
RECURSIVE LStrip(_), RStrip(_)
LStrip(s) == IF s # <<>> /\ IsSpace(s[1]) THEN LStrip(Tail(s)) ELSE s
RStrip(s) == IF s # <<>> /\ IsSpace(s[Len(s)])
               THEN RStrip(SubSeq(s, 1, Len(s) - 1)) ELSE s
StripWs(s) == RStrip(LStrip(s))

RECURSIVE SplitStmts(_, _, _, _)
SplitStmts(s, i, start, acc) ==
  IF i > Len(s.out)
    THEN LET last == StripWs(SubSeq(s.out, start, Len(s.out)))
         IN IF last = <<>> THEN acc ELSE Append(acc, last)
  ELSE IF s.out[i] = SEMI /\ s.mask[i] = 0 /\ s.dep[i] = 0
    THEN LET part == StripWs(SubSeq(s.out, start, i - 1))
         IN SplitStmts(s, i + 1, i + 1,
                       IF part = <<>> THEN acc ELSE Append(acc, part))
  ELSE SplitStmts(s, i + 1, start, acc)

Statements(text) == SplitStmts(Scan(text), 1, 1, <<>>)
StatementSet(text) == LET ss == Statements(text) IN {ss[i] : i \in DOMAIN ss}

-----------------------------------------------------------------------------
(* Tokens of the cleaned text.  Multi-character operators by maximal munch.*)
Op2 == { <<58, 45>>,  \* :-
         <<58, 61>>,  \* :=
         <<61, 61>>,  \* ==
         <<60, 61>>,  \* <=
         <<62, 61>>,  \* >=
         <<33, 61>>,  \* !=
         <<45, 62>>,  \* ->
         <<38, 38>>,  \* &&
         <<124, 124>>,\* ||
         <<43, 43>>,  \* ++
         <<46, 46>>,  \* ..
         <<61, 62>> } \* =>

RECURSIVE RunEnd(_, _, _)      \* last index of the run of word characters
RunEnd(s, i, j) ==
  IF j < Len(s.out) /\ s.mask[j + 1] = 0 /\ IsWord(s.out[j + 1])
    THEN RunEnd(s, i, j + 1) ELSE j
RECURSIVE LitEnd(_, _)
LitEnd(s, j) == IF j < Len(s.out) /\ s.mask[j + 1] = 1 THEN LitEnd(s, j + 1) ELSE j

RECURSIVE TokFrom(_, _, _)
TokFrom(s, i, acc) ==
  IF i > Len(s.out) THEN acc
  ELSE IF s.mask[i] = 2
    THEN LET j == LitEnd(s, i) IN TokFrom(s, j + 1, Append(acc, SubSeq(s.out, i, j)))
  ELSE IF s.mask[i] = 1       \* cannot happen: literal characters follow a 2
    THEN TokFrom(s, i + 1, acc)
  ELSE IF IsSpace(s.out[i]) THEN TokFrom(s, i + 1, acc)
  ELSE IF IsWord(s.out[i])
    THEN LET j == RunEnd(s, i, i) IN TokFrom(s, j + 1, Append(acc, SubSeq(s.out, i, j)))
  ELSE IF i < Len(s.out) /\ s.mask[i + 1] = 0
          /\ <<s.out[i], s.out[i + 1]>> \in Op2
    THEN TokFrom(s, i + 2, Append(acc, SubSeq(s.out, i, i + 1)))
  ELSE TokFrom(s, i + 1, Append(acc, <<s.out[i]>>))

Tokens(text) == TokFrom(Scan(text), 1, <<>>)

-----------------------------------------------------------------------------
(* The value a string literal denotes.                                     *)
RECURSIVE Unescape(_, _, _)
Unescape(s, i, acc) ==
  IF i > Len(s) THEN acc
  ELSE IF s[i] = BSL /\ i < Len(s)
    THEN LET d == s[i + 1] IN
         IF d \in {BSL, APOS, QUOTE} THEN Unescape(s, i + 2, Append(acc, d))
         ELSE IF d = 110 THEN Unescape(s, i + 2, Append(acc, NL))
         ELSE IF d = 116 THEN Unescape(s, i + 2, Append(acc, TAB))
         ELSE Unescape(s, i + 2, Append(Append(acc, BSL), d))
  ELSE Unescape(s, i + 1, Append(acc, s[i]))

IsTriple(l) == Len(l) >= 6 /\ l[1] = QUOTE /\ l[2] = QUOTE /\ l[3] = QUOTE
(* <<"s", value>> or <<"bad">> when l is not one complete literal.         *)
Decode(l) ==
  LET toks == Tokens(l) IN
  IF ~(Whole(l) /\ Len(toks) = 1 /\ toks[1] = l /\ Len(l) >= 2) THEN <<"bad">>
  ELSE IF IsTriple(l) THEN <<"s", SubSeq(l, 4, Len(l) - 3)>>
  ELSE IF l[1] = QUOTE THEN <<"s", SubSeq(l, 2, Len(l) - 1)>>
  ELSE IF l[1] = APOS THEN <<"s", Unescape(SubSeq(l, 2, Len(l) - 1), 1, <<>>)>>
  ELSE <<"bad">>

-----------------------------------------------------------------------------
(* Layouts.  A *case* is a token sequence prepared for rendering:          *)
(*   [toks : Seq(Seq(code point)),                                         *)
(*    sep  : Seq(0/1)  sep[b+1] = 1: boundary b (between token b and b+1;  *)
(*                     b = 0 before the first, b = n after the last token) *)
(*                     carries one canonical space (two word tokens, a     *)
(*                     keyword, or a pair that would merge into another    *)
(*                     token),                                             *)
(*    glue : Seq(0/1)  glue[b+1] = 1: boundary b is *not* a token boundary *)
(*                     of the documented grammar (name+'(' ...),           *)
(*    ranges : Seq(<<from, to>>) token ranges that are whole expressions / *)
(*                     propositions (redundant parentheses are licensed),  *)
(*    cfill : Seq(code point) the text put inside comments]                *)
(* A *layout* is [sites : SUBSET [b, k, pos], wraps : SUBSET index of      *)
(* ranges, nests : SUBSET [w, d, k], semi : 0/1]; k \in NoiseKinds;         *)
(* pos = "L": right after token b (before the canonical space), "R": right *)
(* before token b+1.  A nest [w, d, k] puts d >= 2 pairs of redundant      *)
(* parentheses around range w with noise k between every two layers, on    *)
(* the opening and on the closing side:  ( k ( k ( e ) k ) k ).            *)
(* An *empty statement* [b, c] puts an extra ';' at a statement boundary b *)
(* (before the first token, after the last one, next to a ';' token):      *)
(* c = 0 just ';', c = 1 a comment-only statement '; /* c */ ;',           *)
(* c = 2 ';' + # comment + ';'.                                            *)
NoiseKinds == {"sp", "nl", "hash", "block", "tab", "cr", "ff", "vt", "crlf"}
EmptyLayout == [sites |-> {}, wraps |-> {}, nests |-> {}, empties |-> {},
                semi |-> 0]
LayoutSize(lay) == Cardinality(lay.sites) + Cardinality(lay.wraps)
                   + Cardinality(lay.nests) + Cardinality(lay.empties)
                   + lay.semi

NoiseText(k, cfill) ==
  CASE k = "sp"    -> <<SP>>
    [] k = "nl"    -> <<NL>>
    [] k = "hash"  -> <<HASH>> \o cfill \o <<NL>>
    [] k = "block" -> <<SLASH, STAR>> \o cfill \o <<STAR, SLASH>>
    [] k = "tab"   -> <<TAB>>
    [] k = "cr"    -> <<CR>>
    [] k = "ff"    -> <<FF>>
    [] k = "vt"    -> <<VT>>
    [] k = "crlf"  -> <<CR, NL>>

SiteText(c, lay, b, pos) ==
  LET here == {s \in lay.sites : s.b = b /\ s.pos = pos} IN
  IF here = {} THEN <<>> ELSE NoiseText((CHOOSE s \in here : TRUE).k, c.cfill)

Rep(ch, n) == [i \in 1..n |-> ch]

(* d layers of the bracket ch with the noise between consecutive layers.   *)
RECURSIVE Layers(_, _, _)
Layers(ch, d, between) ==
  IF d <= 1 THEN <<ch>> ELSE <<ch>> \o between \o Layers(ch, d - 1, between)
NestText(c, lay, ch, sel, noisy) ==   \* sel: the nests that open / close here
  IF sel = {} THEN <<>>
  ELSE LET n == CHOOSE x \in sel : TRUE IN
       Layers(ch, n.d, IF noisy THEN NoiseText(n.k, c.cfill) ELSE <<>>)

EmptyText(c, lay, b, noisy) ==
  LET here == {e \in lay.empties : e.b = b} IN
  IF here = {} THEN <<>>
  ELSE LET e == CHOOSE x \in here : TRUE IN
       IF e.c = 0 THEN <<SEMI>>
       ELSE <<SEMI>> \o (IF noisy THEN NoiseText(IF e.c = 1 THEN "block" ELSE "hash",
                                                 c.cfill) ELSE <<>>)
            \o <<SEMI>>

(* What stands at boundary b: closing redundant parentheses of ranges that *)
(* end at token b, the trailing ';', noise, the canonical space, noise,    *)
(* opening redundant parentheses of ranges that start at token b+1.        *)
Boundary(c, lay, b, noisy) ==
  LET n == Len(c.toks) IN
  Rep(RP, Cardinality({w \in lay.wraps : c.ranges[w][2] = b}))
  \o NestText(c, lay, RP, {x \in lay.nests : c.ranges[x.w][2] = b}, noisy)
  \o (IF b = n /\ lay.semi = 1 THEN <<SEMI>> ELSE <<>>)
  \o EmptyText(c, lay, b, noisy)
  \o (IF noisy THEN SiteText(c, lay, b, "L") ELSE <<>>)
  \o (IF c.sep[b + 1] = 1 THEN <<SP>> ELSE <<>>)
  \o (IF noisy THEN SiteText(c, lay, b, "R") ELSE <<>>)
  \o NestText(c, lay, LP, {x \in lay.nests : c.ranges[x.w][1] = b + 1}, noisy)
  \o Rep(LP, Cardinality({w \in lay.wraps : c.ranges[w][1] = b + 1}))

RECURSIVE RenderFrom(_, _, _, _, _)
RenderFrom(c, lay, b, noisy, acc) ==
  IF b > Len(c.toks) THEN acc
  ELSE RenderFrom(c, lay, b + 1, noisy,
                  acc \o Boundary(c, lay, b, noisy)
                      \o (IF b < Len(c.toks) THEN c.toks[b + 1] ELSE <<>>))

Render(c, lay)       == RenderFrom(c, lay, 0, TRUE, <<>>)
RenderNoNoise(c, lay) == RenderFrom(c, lay, 0, FALSE, <<>>)
Canonical(c)         == Render(c, EmptyLayout)

(* Noise insertion as operators on layouts (the actions of LLexNoise).     *)
CanInsert(c, lay, b, pos) ==
  /\ b \in 0..Len(c.toks)
  /\ c.glue[b + 1] = 0
  /\ pos \in {"L", "R"}
  /\ (pos = "R" => c.sep[b + 1] = 1)
  /\ ~\E s \in lay.sites : s.b = b /\ s.pos = pos
Insert(lay, b, k, pos) ==
  [lay EXCEPT !.sites = @ \cup {[b |-> b, k |-> k, pos |-> pos]}]
CanWrap(c, lay, w) == /\ w \in 1..Len(c.ranges) /\ w \notin lay.wraps
                      /\ \A x \in lay.nests : x.w # w
WrapRange(lay, w) == [lay EXCEPT !.wraps = @ \cup {w}]
AddSemi(lay) == [lay EXCEPT !.semi = 1]
(* at most one nest opens and one nest closes at a boundary, and a range   *)
(* is either wrapped once or nested                                        *)
CanEmpty(c, lay, b) ==
  /\ b \in 0..Len(c.toks)
  /\ IF b = 0 \/ b = Len(c.toks) THEN TRUE
     ELSE c.toks[b] = <<SEMI>> \/ c.toks[b + 1] = <<SEMI>>
  /\ ~\E e \in lay.empties : e.b = b
AddEmpty(lay, b, cc) == [lay EXCEPT !.empties = @ \cup {[b |-> b, c |-> cc]}]
CanNest(c, lay, w) ==
  /\ w \in 1..Len(c.ranges) /\ w \notin lay.wraps
  /\ \A x \in lay.nests : /\ c.ranges[x.w][1] # c.ranges[w][1]
                          /\ c.ranges[x.w][2] # c.ranges[w][2]
NestRange(lay, w, d, k) ==
  [lay EXCEPT !.nests = @ \cup {[w |-> w, d |-> d, k |-> k]}]

(* MODEL THEOREM: noise insertion leaves Tokens unchanged.                 *)
TokensPreservedFor(c, lay) ==
  Tokens(Render(c, lay)) = Tokens(RenderNoNoise(c, lay))

(* The canonical rendering separates exactly the given tokens: the tokens  *)
(* of the canonical text are the tokens of the pieces, in order.           *)
RECURSIVE FlatTokens(_, _, _)
FlatTokens(toks, i, acc) ==
  IF i > Len(toks) THEN acc
  ELSE FlatTokens(toks, i + 1,
                  acc \o (IF Len(toks[i]) = 1 THEN <<toks[i]>>   \* a lone bracket
                          ELSE Tokens(toks[i])))
CanonicalFaithfulFor(c) ==
  Tokens(Canonical(c)) = FlatTokens(c.toks, 1, <<>>)

=============================================================================
