SPECIFICATION Spec
CONSTANTS
  MaxLen = 2
  Alphabet = "ascii"
INVARIANT FillInert
CHECK_DEADLOCK FALSE
