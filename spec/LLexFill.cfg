SPECIFICATION Spec
CONSTANTS
  MaxLen = 2
INVARIANT FillInert
CHECK_DEADLOCK FALSE
