------------------------------- MODULE LLexFill -------------------------------
(***************************************************************************)
(* Contents of string literals and comments: ALL strings of length         *)
(* <= MaxLen over the symbols (Alphabet = "ascii")                         *)
(*   ; , | ( ) [ ] { } # /* */ :- distinct in if " ' \                     *)
(* (keywords are padded with spaces so that they are words).  For every    *)
(* such content and every form (dq "...", sq '...', tq triple-quoted,      *)
(* hash comment, block comment) the automaton of LLex decides whether the  *)
(* content is legal for the form (the literal is exactly one token / the   *)
(* comment disappears without a trace) and what it denotes.  The model     *)
(* theorem FillInert: a legal content never changes the tokens around it.  *)
(* Each content is exported as <<"FILL", json>>.                           *)
(***************************************************************************)
EXTENDS LLex

CONSTANTS MaxLen,
          Alphabet    \* "ascii": the 19 symbols; "unicode": see SymU

SymA == << <<59>>, <<44>>, <<124>>, <<40>>, <<41>>, <<91>>, <<93>>, <<123>>,
          <<125>>, <<35>>, <<47, 42>>, <<42, 47>>, <<58, 45>>,
          <<32, 100, 105, 115, 116, 105, 110, 99, 116, 32>>,
          <<32, 105, 110, 32>>, <<32, 105, 102, 32>>,
          <<34>>, <<39>>, <<92>> >>
(* Characters whose UTF-8 encoding takes 2, 3 and 4 bytes (U+00E9, U+20AC, *)
(* U+1D11E), with a separator and a bracket: spans are code-point offsets  *)
(* for the Python parser and byte offsets inside the C++ parser.           *)
SymU == << <<233>>, <<8364>>, <<119070>>, <<59>>, <<41>> >>
Sym == IF Alphabet = "unicode" THEN SymU ELSE SymA

VARIABLES fill
vars == <<fill>>

RECURSIVE TextOf(_, _)
TextOf(f, i) == IF i > Len(f) THEN <<>> ELSE Sym[f[i]] \o TextOf(f, i + 1)
Text == TextOf(fill, 1)

Lit(form, t) ==
  CASE form = "dq" -> <<QUOTE>> \o t \o <<QUOTE>>
    [] form = "sq" -> <<APOS>> \o t \o <<APOS>>
    [] form = "tq" -> <<QUOTE, QUOTE, QUOTE>> \o t \o <<QUOTE, QUOTE, QUOTE>>
Comment(form, t) == NoiseText(form, t)

Pre == <<80, 40>>            \* P(
Post == <<41, 81>>           \* )Q  -- Q is not in the alphabet, so a content
                             \* that closes the bracket itself and comments the
                             \* rest out ( */)# ) cannot pass for inert
LegalStr(form, t) == Decode(Lit(form, t)) # <<"bad">>
LegalComment(form, t) ==
  /\ Clean(Pre \o Comment(form, t) \o Post)
       = Pre \o (IF form = "hash" THEN <<NL>> ELSE <<>>) \o Post
  /\ Whole(Pre \o Comment(form, t) \o Post)

StrForms == {"dq", "sq", "tq"}
CommentForms == {"hash", "block"}

Value(form, t) == IF LegalStr(form, t) THEN Decode(Lit(form, t))[2] ELSE <<>>

Export ==
  PrintT(<<"FILL", ToJson([syms |-> fill, text |-> Text,
     legal |-> [f \in StrForms \cup CommentForms |->
                  IF f \in StrForms THEN LegalStr(f, Text)
                  ELSE LegalComment(f, Text)],
     value |-> [f \in StrForms |-> Value(f, Text)]])>>)

Init == fill = <<>> /\ Export
Next == /\ Len(fill) < MaxLen
        /\ \E s \in 1..Len(Sym) : fill' = Append(fill, s)
        /\ LET t == TextOf(fill', 1) IN
           PrintT(<<"FILL", ToJson([syms |-> fill', text |-> t,
             legal |-> [f \in StrForms \cup CommentForms |->
                          IF f \in StrForms THEN LegalStr(f, t)
                          ELSE LegalComment(f, t)],
             value |-> [f \in StrForms |-> Value(f, t)]])>>)
Spec == Init /\ [][Next]_vars

(* A legal content is inert: the surrounding tokens are the same as with   *)
(* an empty literal / no comment, the literal is one token, and raw forms  *)
(* denote their content verbatim.                                          *)
FillInert ==
  /\ \A f \in StrForms :
       LegalStr(f, Text) =>
         /\ Tokens(Pre \o Lit(f, Text) \o Post)
              = <<<<80>>, <<40>>, Lit(f, Text), <<41>>, <<81>>>>
         /\ Len(Statements(Pre \o Lit(f, Text) \o Post)) = 1
         /\ (f \in {"dq", "tq"} => Value(f, Text) = Text)
  /\ \A f \in CommentForms :
       LegalComment(f, Text) =>
         Tokens(Pre \o Comment(f, Text) \o Post)
           = <<<<80>>, <<40>>, <<41>>, <<81>>>>
=============================================================================
