SPECIFICATION Spec
CONSTANTS
  MaxLen = 3
INVARIANT FillInert
CHECK_DEADLOCK FALSE
