SPECIFICATION Spec
CONSTANTS
  MaxSites = 1
  MaxDepth = 3
INVARIANT TokensPreserved
INVARIANT CanonicalFaithful
CHECK_DEADLOCK FALSE
