------------------------------ MODULE LLexNoise ------------------------------
(***************************************************************************)
(* The layout state machine of LLex run over given token sequences         *)
(* ($CASE_FILE: ndjson, one case per line, produced from LSyntaxGen's      *)
(* export).  TLC enumerates every layout with at most MaxSites insertions  *)
(* (exhaustive: single-site at every boundary; -simulate: multi-site       *)
(* samples; incl. NestParens: 2-3 layers of redundant parentheses with     *)
(* noise between the layers), checks the model theorem on each, exports    *)
(* each as a placement <<"PLACE", json>> for the conformance harness.      *)
(***************************************************************************)
EXTENDS LLex

CONSTANTS MaxSites, MaxDepth

Cases == ndJsonDeserialize(IOEnv.CASE_FILE)

VARIABLES ci, lay, sent
vars == <<ci, lay, sent>>

C == Cases[ci]

Export(l) ==
  PrintT(<<"PLACE", ToJson([ci |-> ci, id |-> C.id, sites |-> l.sites,
                            wraps |-> l.wraps, nests |-> l.nests,
                            empties |-> l.empties,
                            semi |-> l.semi])>>)

Init == ci \in 1..Len(Cases) /\ lay = EmptyLayout /\ sent = FALSE

Room == ~sent /\ LayoutSize(lay) < MaxSites

InsertNoise(k) ==
  /\ Room
  /\ \E b \in 0..Len(C.toks), pos \in {"L", "R"} :
       /\ CanInsert(C, lay, b, pos)
       /\ lay' = Insert(lay, b, k, pos)
  /\ UNCHANGED <<ci, sent>>

InsertSpace        == InsertNoise("sp")
InsertNewline      == InsertNoise("nl")
InsertHashComment  == InsertNoise("hash")
InsertBlockComment == InsertNoise("block")
(* every ASCII character the parsers treat as layout: tab, \r, \f, \v, and *)
(* CRLF line ends                                                          *)
InsertControlSpace == \E k \in {"tab", "cr", "ff", "vt", "crlf"} : InsertNoise(k)
(* an extra ';' or a comment-only statement at a statement boundary        *)
EmptyStatement ==
  /\ Room
  /\ \E b \in 0..Len(C.toks), cc \in 0..2 :
       /\ CanEmpty(C, lay, b)
       /\ lay' = AddEmpty(lay, b, cc)
  /\ UNCHANGED <<ci, sent>>

WrapParens ==
  /\ Room
  /\ \E w \in 1..Len(C.ranges) :
       /\ CanWrap(C, lay, w)
       /\ lay' = WrapRange(lay, w)
  /\ UNCHANGED <<ci, sent>>

(* several layers of redundant parentheses with layout between the layers *)
NestParens ==
  /\ Room
  /\ \E w \in 1..Len(C.ranges), d \in 2..MaxDepth, k \in NoiseKinds :
       /\ CanNest(C, lay, w)
       /\ lay' = NestRange(lay, w, d, k)
  /\ UNCHANGED <<ci, sent>>

TrailingSemicolon ==
  /\ Room /\ lay.semi = 0
  /\ lay' = AddSemi(lay)
  /\ UNCHANGED <<ci, sent>>

(* Every visited non-empty layout is exported exactly once (under          *)
(* -simulate TLC evaluates all successors of the states it walks through,  *)
(* so exporting inside the insertion actions would export the whole        *)
(* neighbourhood).                                                         *)
Emit ==
  /\ ~sent /\ LayoutSize(lay) >= 1
  /\ Export(lay)
  /\ sent' = TRUE
  /\ UNCHANGED <<ci, lay>>

Next == \/ InsertSpace \/ InsertNewline \/ InsertHashComment
        \/ InsertBlockComment \/ InsertControlSpace \/ EmptyStatement
        \/ WrapParens \/ NestParens
        \/ TrailingSemicolon \/ Emit

Spec == Init /\ [][Next]_vars

TokensPreserved   == TokensPreservedFor(C, lay)
CanonicalFaithful == CanonicalFaithfulFor(C)
=============================================================================
