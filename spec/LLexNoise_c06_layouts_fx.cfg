SPECIFICATION Spec
CONSTANTS
  MaxSites = 5
INVARIANT TokensPreserved
INVARIANT CanonicalFaithful
CHECK_DEADLOCK FALSE
