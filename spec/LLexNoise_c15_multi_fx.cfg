SPECIFICATION Spec
CONSTANTS
  MaxSites = 4
INVARIANT TokensPreserved
INVARIANT CanonicalFaithful
CHECK_DEADLOCK FALSE
