SPECIFICATION Spec
CONSTANTS
  MaxSites = 6
INVARIANT TokensPreserved
INVARIANT CanonicalFaithful
CHECK_DEADLOCK FALSE
