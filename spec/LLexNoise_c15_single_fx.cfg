SPECIFICATION Spec
CONSTANTS
  MaxSites = 1
INVARIANT TokensPreserved
INVARIANT CanonicalFaithful
CHECK_DEADLOCK FALSE
