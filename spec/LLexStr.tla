------------------------------ MODULE LLexStr ------------------------------
(***************************************************************************)
(* String literals of the Logica language (property C10): which forms can  *)
(* carry which strings, and what a literal denotes.                        *)
(*                                                                         *)
(* docs/syntax.md:   string_literal ::= '"' [^"<newline>] '"'              *)
(*   - the content is taken verbatim: there is no escape character, so a   *)
(*     double quote or a newline cannot be written in this form.           *)
(* parser (ParseString) additionally accepts                               *)
(*   - '...'      content read with the usual backslash escapes            *)
(*                (\\ \' \" \n \t ...); a raw quote ends it, a raw newline *)
(*                is not allowed;                                          *)
(*   - """..."""  content verbatim, newlines allowed; the content cannot   *)
(*                contain three double quotes in a row nor end with a      *)
(*                double quote (the scanner closes at the first """).      *)
(* The quoted form follows Python's string-literal rules (ParseString      *)
(* evaluates it with ast.literal_eval): \\ \' \" \n \t \a \b \f \r \v are   *)
(* escapes; a backslash before ANY OTHER character is not an escape and    *)
(* stays in the string together with that character - whatever the         *)
(* character is (ASCII, Latin-1, any other BMP character, astral):         *)
(* 'C:\<U+0414>' denotes C:\<U+0414>.  Octal, \x, \u, \U, \N and           *)
(* backslash-newline are outside the model (LDecode not ok).               *)
(* Form "sqraw" is the quoted form written with every backslash that can   *)
(* be left alone left alone (the way users write Windows paths).           *)
(***************************************************************************)
EXTENDS Naturals, Sequences, FiniteSets, TLC

LSQ  == 39
LDQ  == 34
LBSL == 92
LNL  == 10
LTAB == 9

LForms == {"dq", "sq", "tq", "sqraw"}

Contains3DQ(s) == \E i \in 1..(Len(s) - 2) :
                     s[i] = LDQ /\ s[i + 1] = LDQ /\ s[i + 2] = LDQ
HasChar(s, c) == \E i \in 1..Len(s) : s[i] = c

(* Characters that, after a backslash, form an escape sequence (or one the  *)
(* model leaves alone): quote, double quote, backslash, newline, digits,   *)
(* a b f n r t v x N u U.                                                  *)
EscapeLetters == {LSQ, LDQ, LBSL, LNL, 97, 98, 102, 110, 114, 116, 118,
                  120, 78, 117, 85} \cup (48..57)
(* The backslash at s[i] can be written alone: something follows it and    *)
(* that something does not make an escape sequence.                        *)
LoneOk(s, i) == i < Len(s) /\ s[i] = LBSL /\ s[i + 1] \notin EscapeLetters

(* Which strings a form can carry (the "expressible" predicate).           *)
CanCarry(form, s) ==
  CASE form = "dq" -> ~HasChar(s, LDQ) /\ ~HasChar(s, LNL)
    [] form = "tq" -> ~Contains3DQ(s) /\ (s = <<>> \/ s[Len(s)] # LDQ)
    [] form = "sq" -> TRUE
    [] form = "sqraw" -> \E i \in 1..(Len(s) - 1) : LoneOk(s, i)

Expressible(s) == \E f \in LForms : CanCarry(f, s)

RECURSIVE LMapCat(_, _)
LMapCat(F(_), s) == IF s = <<>> THEN <<>> ELSE F(Head(s)) \o LMapCat(F, Tail(s))

SqEsc(c) == CASE c = LSQ -> <<LBSL, LSQ>> [] c = LBSL -> <<LBSL, LBSL>>
              [] c = LNL -> <<LBSL, 110>> [] OTHER -> <<c>>

(* Canonical way of writing s in a form (the harness may write it in any   *)
(* other way the form allows; verdicts use LDecode of what was written).   *)
RECURSIVE RawBody(_, _)
RawBody(s, i) ==
  IF i > Len(s) THEN <<>>
  ELSE (IF LoneOk(s, i) THEN <<LBSL>> ELSE SqEsc(s[i])) \o RawBody(s, i + 1)

LRender(form, s) ==
  CASE form = "dq" -> <<LDQ>> \o s \o <<LDQ>>
    [] form = "tq" -> <<LDQ, LDQ, LDQ>> \o s \o <<LDQ, LDQ, LDQ>>
    [] form = "sq" -> <<LSQ>> \o LMapCat(SqEsc, s) \o <<LSQ>>
    [] form = "sqraw" -> <<LSQ>> \o RawBody(s, 1) \o <<LSQ>>

LFormOf(text) ==
  IF Len(text) >= 6 /\ SubSeq(text, 1, 3) = <<LDQ, LDQ, LDQ>> THEN "tq"
  ELSE IF Len(text) >= 2 /\ text[1] = LDQ THEN "dq"
  ELSE IF Len(text) >= 2 /\ text[1] = LSQ THEN "sq"
  ELSE "none"

RECURSIVE SqBody(_, _, _)
SqBody(text, i, acc) ==   \* scanning the inside of '...' ; text[Len] is the closing quote
  IF i >= Len(text) THEN [ok |-> (i = Len(text)), val |-> acc]
  ELSE LET c == text[i] IN
    IF c = LSQ \/ c = LNL THEN [ok |-> FALSE, val |-> acc]
    ELSE IF c = LBSL THEN
      IF i + 1 >= Len(text) THEN [ok |-> FALSE, val |-> acc]
      ELSE LET e == text[i + 1] IN
        CASE e = LBSL -> SqBody(text, i + 2, Append(acc, LBSL))
          [] e = LSQ  -> SqBody(text, i + 2, Append(acc, LSQ))
          [] e = LDQ  -> SqBody(text, i + 2, Append(acc, LDQ))
          [] e = 110  -> SqBody(text, i + 2, Append(acc, LNL))
          [] e = 116  -> SqBody(text, i + 2, Append(acc, LTAB))
          [] e = 97   -> SqBody(text, i + 2, Append(acc, 7))
          [] e = 98   -> SqBody(text, i + 2, Append(acc, 8))
          [] e = 102  -> SqBody(text, i + 2, Append(acc, 12))
          [] e = 114  -> SqBody(text, i + 2, Append(acc, 13))
          [] e = 118  -> SqBody(text, i + 2, Append(acc, 11))
          [] e \in EscapeLetters -> [ok |-> FALSE, val |-> acc]   \* unmodelled
          [] OTHER    -> SqBody(text, i + 2, acc \o <<LBSL, e>>)  \* not an escape
    ELSE SqBody(text, i + 1, Append(acc, c))

(* What a Logica literal denotes: [ok, form, val].                         *)
LDecode(text) ==
  LET f == LFormOf(text) IN
  CASE f = "tq" ->
         LET inner == SubSeq(text, 4, Len(text) - 3) IN
           [ok |-> SubSeq(text, Len(text) - 2, Len(text)) = <<LDQ, LDQ, LDQ>>
                   /\ CanCarry("tq", inner),
            form |-> f, val |-> inner]
    [] f = "dq" ->
         LET inner == SubSeq(text, 2, Len(text) - 1) IN
           [ok |-> text[Len(text)] = LDQ /\ CanCarry("dq", inner),
            form |-> f, val |-> inner]
    [] f = "sq" ->
         LET r == SqBody(text, 2, <<>>) IN
           [ok |-> text[Len(text)] = LSQ /\ r.ok, form |-> f, val |-> r.val]
    [] OTHER -> [ok |-> FALSE, form |-> f, val |-> <<>>]

(* Lemma checked by StrLitLemma: the canonical rendering decodes back.     *)
(* "sqraw" is a way of writing the quoted form, not a lexical form.        *)
LexForm(f) == IF f = "sqraw" THEN "sq" ELSE f
LRoundTrip(form, s) ==
  CanCarry(form, s) =>
    LET r == LDecode(LRender(form, s))
    IN r.ok /\ r.form = LexForm(form) /\ r.val = s

-----------------------------------------------------------------------------
(* The documented parameter form ${name}: a string containing it is        *)
(* subject to flag expansion, not to character-for-character transport.    *)
HasParamForm(s) ==
  \E i \in 1..Len(s) : \E j \in (i + 2)..Len(s) :
     s[i] = 36 /\ s[i + 1] = 123 /\ s[j] = 125
=============================================================================
