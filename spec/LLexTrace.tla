------------------------------- MODULE LLexTrace -------------------------------
(***************************************************************************)
(* Code -> spec direction for C15.  Input ($TRACE_FILE, ndjson): one line  *)
(* per generated program,                                                  *)
(*   [id, case (token code points, sep, glue, ranges, cfill),              *)
(*    base  : [py, cpp] shape hashes of the host the program was derived   *)
(*            from by filling a string literal (its own shape otherwise),  *)
(*    canon : [text, py, cpp],                                             *)
(*    vars  : Seq([lay, cfill, text, py, cpp])]   (cfill: comment content) *)
(* where py / cpp are what the harness recorded from the two real parsers  *)
(* for that exact text:                                                    *)
(*   [st : "ok" | "rej", tree, shape : hashes of the rule trees without    *)
(*    heritage texts (shape: string values abstracted),                    *)
(*    H : heritage texts, spans : Seq(<<hid, start, stop, text>>) of every *)
(*    heritage-aware string in the tree, lits : Seq(<<hid, start, stop,    *)
(*    value>>) of every string literal]                                    *)
(*                                                                         *)
(* The specification (not the harness) decides, per text and parser:       *)
(*   render   the text is LLex!Render(case, layout)            [machinery] *)
(*   tree     the noisy text parses to the tree of the canonical text      *)
(*   inert    filling a string literal does not change the tree shape      *)
(*   heritage every heritage is a statement of the text (LLex!Statements)  *)
(*   span     heritage[start+1..stop] = str(node), indices in range        *)
(*   lit      the recorded value of every string literal is                *)
(*            LLex!Decode(literal text at its span)                        *)
(*   litset   the string values in the tree are exactly the decoded string *)
(*            tokens of the case                                           *)
(* One TLC state per line; each prints <<"R", json>> with the failed       *)
(* clauses and the number of facts checked.                                *)
(***************************************************************************)
EXTENDS LLex, TLCExt

Recs == ndJsonDeserialize(IOEnv.TRACE_FILE)

VARIABLE i

RangeOf(seq) == {seq[j] : j \in DOMAIN seq}
LayOf(j) == [sites |-> RangeOf(j.sites), wraps |-> RangeOf(j.wraps),
             nests |-> RangeOf(j.nests), empties |-> RangeOf(j.empties),
             semi |-> j.semi]

SpanBad(p, s) ==
  LET h == p.H[s[1] + 1] IN
  ~(0 <= s[2] /\ s[2] <= s[3] /\ s[3] <= Len(h)) \/
  SubSeq(h, s[2] + 1, s[3]) # s[4]

LitBad(p, l) ==
  LET h == p.H[l[1] + 1] IN
  ~(0 <= l[2] /\ l[2] <= l[3] /\ l[3] <= Len(h)) \/
  Decode(SubSeq(h, l[2] + 1, l[3])) # <<"s", l[4]>>

StringTokens(c) ==
  {c.toks[j] : j \in {k \in DOMAIN c.toks : c.toks[k][1] \in {QUOTE, APOS}}}
ExpectedValues(c) == {Decode(t)[2] : t \in StringTokens(c)}

(* Failed clauses of one parse p of a text whose statements are stmts. *)
ParseFails(c, stmts, p) ==
  IF p.st # "ok" THEN {}
  ELSE
    (IF \E h \in RangeOf(p.H) : h \notin stmts THEN {"heritage"} ELSE {})
    \cup (IF \E j \in DOMAIN p.spans : SpanBad(p, p.spans[j]) THEN {"span"} ELSE {})
    \cup (IF \E j \in DOMAIN p.lits : LitBad(p, p.lits[j]) THEN {"lit"} ELSE {})
    \cup (IF {p.lits[j][4] : j \in DOMAIN p.lits} # ExpectedValues(c)
            THEN {"litset"} ELSE {})

Tag(who, set) == {<<who, x>> : x \in set}

CanonFails(r) ==
  (IF Canonical(r.case) # r.canon.text THEN {<<"m", "render">>} ELSE {})
  \cup (IF r.canon.py.shape # r.base.py THEN {<<"py", "inert">>} ELSE {})
  \cup (IF r.canon.cpp.shape # r.base.cpp THEN {<<"cpp", "inert">>} ELSE {})
  \cup (LET stmts == StatementSet(r.canon.text) IN
        Tag("py", ParseFails(r.case, stmts, r.canon.py))
        \cup Tag("cpp", ParseFails(r.case, stmts, r.canon.cpp)))

VarFails(r, v) ==
  (IF Render([r.case EXCEPT !.cfill = v.cfill], LayOf(v.lay)) # v.text
     THEN {<<"m", "render">>} ELSE {})
  \cup (IF v.py.tree # r.canon.py.tree THEN {<<"py", "tree">>} ELSE {})
  \cup (IF v.cpp.tree # r.canon.cpp.tree THEN {<<"cpp", "tree">>} ELSE {})
  \cup (LET stmts == StatementSet(v.text) IN
        Tag("py", ParseFails(r.case, stmts, v.py))
        \cup Tag("cpp", ParseFails(r.case, stmts, v.cpp)))

Facts(p) == Len(p.spans) + Len(p.lits) + Len(p.H)
RECURSIVE SumFacts(_, _)
SumFacts(vs, j) == IF j > Len(vs) THEN 0
                   ELSE Facts(vs[j].py) + Facts(vs[j].cpp) + SumFacts(vs, j + 1)

Report(r) ==
  LET cf == CanonFails(r)
      bad == {<<0, f>> : f \in cf} \cup
             UNION {{<<j, f>> : f \in VarFails(r, r.vars[j])} : j \in DOMAIN r.vars}
  IN [id |-> r.id, n |-> Len(r.vars) + 1,
      facts |-> Facts(r.canon.py) + Facts(r.canon.cpp) + SumFacts(r.vars, 1),
      bad |-> bad]

Init == i = 1
Next == /\ i <= Len(Recs)
        /\ PrintT(<<"R", ToJson(Report(Recs[i]))>>)
        /\ i' = i + 1
Spec == Init /\ [][Next]_i

Accepted == TLCGet("stats").diameter - 1 = Len(Recs)
=============================================================================
