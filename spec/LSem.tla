-------------------------------- MODULE LSem --------------------------------
(***************************************************************************)
(* Den(prog): the bag of rows every predicate of a Logica program denotes, *)
(* as docs/learn/logica.md defines it:                                     *)
(*   - a rule body is a conjunction; its solutions are the combinations of *)
(*     rows of the positive literals that satisfy the constraints, so      *)
(*     conjunction multiplies multiplicities;                              *)
(*   - disjunction `|` and several rules add multiplicities;               *)
(*   - `distinct` groups by the non-aggregated arguments; aggregated       *)
(*     arguments fold over all solutions of all bodies;                    *)
(*   - an aggregating expression Op{e :- body} is evaluated per binding of *)
(*     the outer variables; variables first met inside it are local;       *)
(*   - ~B holds iff B has no solution;                                     *)
(*   - F(args) inside an expression is an extra conjunct                   *)
(*     F(args, logica_value: fresh);                                       *)
(*   - a predicate given by one non-distinct rule may be called with       *)
(*     arguments its body does not bind ("injectible"): the call means the *)
(*     body with the arguments substituted;                                *)
(*   - a recursive component with depth d is d+1 simultaneous applications *)
(*     of its rules starting from empty relations;                         *)
(*   - order_by/limit keep the first K rows in the given order.            *)
(*                                                                         *)
(* Programs arrive as JSON (see harness/ir.py for the same shapes):        *)
(*  prog  = [preds: Seq(pred)]                                             *)
(*  pred  = [name, rules: Seq(rule), inline: BOOLEAN, ...]                 *)
(*  rule  = [head: Seq([f, e, agg]), distinct: BOOLEAN, body: Seq(conj)]   *)
(*  conj  = [k:"atom", p, args: Seq([f, e])] | [k:"cmp", e]                *)
(*        | [k:"unify", l, r] | [k:"inc", l, r] | [k:"neg", body]          *)
(*        | [k:"or", alts: Seq(Seq(conj))]                                 *)
(*  expr  = [k:"var", name] | [k:"lit", v] | [k:"op", op, args]            *)
(*        | [k:"list", items] | [k:"rec", fields: Seq([f, e])]             *)
(*        | [k:"sub", e, f] | [k:"if", c, t, f]                            *)
(*        | [k:"pcall", p, args: Seq([f, e])]                              *)
(*        | [k:"agg", op, e, body]                                         *)
(***************************************************************************)
EXTENDS LValues

EmptyB == ("$" :> Null)         \* a binding: variable name -> value ("$" is a sentinel)
Bind(b, x, v) == (x :> v) @@ b

-----------------------------------------------------------------------------
(* Variables.  DV*: occurring directly (not inside a nested aggregating    *)
(* expression / negation); AV*: anywhere.                                  *)
RECURSIVE DVE(_), AVE(_), AVC(_), DVC(_)
SeqUnion(n, Op(_)) == UNION {Op(i) : i \in 1..n}

DVE(e) ==
  CASE e.k = "var"  -> {e.name}
    [] e.k = "lit"  -> {}
    [] e.k = "op"   -> SeqUnion(Len(e.args), LAMBDA i : DVE(e.args[i]))
    [] e.k = "list" -> SeqUnion(Len(e.items), LAMBDA i : DVE(e.items[i]))
    [] e.k = "rec"  -> SeqUnion(Len(e.fields), LAMBDA i : DVE(e.fields[i].e))
    [] e.k = "sub"  -> DVE(e.e)
    [] e.k = "if"   -> DVE(e.c) \cup DVE(e.t) \cup DVE(e.f)
    [] e.k = "pcall" -> SeqUnion(Len(e.args), LAMBDA i : DVE(e.args[i].e))
    [] e.k = "agg"  -> {}

AVBody(body) == SeqUnion(Len(body), LAMBDA i : AVC(body[i]))
DVBody(body) == SeqUnion(Len(body), LAMBDA i : DVC(body[i]))

AVE(e) ==
  CASE e.k = "var"  -> {e.name}
    [] e.k = "lit"  -> {}
    [] e.k = "op"   -> SeqUnion(Len(e.args), LAMBDA i : AVE(e.args[i]))
    [] e.k = "list" -> SeqUnion(Len(e.items), LAMBDA i : AVE(e.items[i]))
    [] e.k = "rec"  -> SeqUnion(Len(e.fields), LAMBDA i : AVE(e.fields[i].e))
    [] e.k = "sub"  -> AVE(e.e)
    [] e.k = "if"   -> AVE(e.c) \cup AVE(e.t) \cup AVE(e.f)
    [] e.k = "pcall" -> SeqUnion(Len(e.args), LAMBDA i : AVE(e.args[i].e))
    [] e.k = "agg"  -> AVE(e.e) \cup AVBody(e.body)

AVC(c) ==
  CASE c.k = "atom"  -> SeqUnion(Len(c.args), LAMBDA i : AVE(c.args[i].e))
    [] c.k = "cmp"   -> AVE(c.e)
    [] c.k = "unify" -> AVE(c.l) \cup AVE(c.r)
    [] c.k = "inc"   -> AVE(c.l) \cup AVE(c.r)
    [] c.k = "neg"   -> AVBody(c.body)
    [] c.k = "or"    -> SeqUnion(Len(c.alts), LAMBDA i : AVBody(c.alts[i]))

DVC(c) ==
  CASE c.k = "atom"  -> SeqUnion(Len(c.args), LAMBDA i : DVE(c.args[i].e))
    [] c.k = "cmp"   -> DVE(c.e)
    [] c.k = "unify" -> DVE(c.l) \cup DVE(c.r)
    [] c.k = "inc"   -> DVE(c.l) \cup DVE(c.r)
    [] c.k = "neg"   -> {}
    [] c.k = "or"    -> SeqUnion(Len(c.alts), LAMBDA i : DVBody(c.alts[i]))

RuleScope(r) == SeqUnion(Len(r.head), LAMBDA i : DVE(r.head[i].e)) \cup DVBody(r.body)

(* What must be bound before expression e can be evaluated in a scope whose *)
(* visible variables are V: its direct variables and the visible ones that  *)
(* nested aggregating expressions mention.                                  *)
Needed(e, V) == DVE(e) \cup (AVE(e) \cap V)
Ground(e, bound, V) == Needed(e, V) \subseteq bound
BareUnbound(e, bound) == e.k = "var" /\ e.name \notin bound
(* A record expression used as a pattern: every field is an unbound plain    *)
(* variable or is ground, at least one is an unbound variable, and no        *)
(* variable is to be bound twice.                                            *)
RecPattern(e, bound, V) ==
  /\ e.k = "rec"
  /\ \A i \in 1..Len(e.fields) : BareUnbound(e.fields[i].e, bound) \/ Ground(e.fields[i].e, bound, V)
  /\ \E i \in 1..Len(e.fields) : BareUnbound(e.fields[i].e, bound)
  /\ \A i, j \in 1..Len(e.fields) :
        (i # j /\ BareUnbound(e.fields[i].e, bound) /\ BareUnbound(e.fields[j].e, bound))
        => e.fields[i].e.name # e.fields[j].e.name

(* Variables a body can bind by itself (over-approximation, used only to    *)
(* tell input parameters of injectible predicates from their outputs).      *)
RECURSIVE BindableC(_)
BindableBody(body) == SeqUnion(Len(body), LAMBDA i : BindableC(body[i]))
BindableC(c) ==
  CASE c.k = "atom"  -> {c.args[i].e.name : i \in {j \in 1..Len(c.args) : c.args[j].e.k = "var"}}
    [] c.k = "cmp"   -> {}
    [] c.k = "unify" -> (IF c.l.k = "var" THEN {c.l.name} ELSE {})
                        \cup (IF c.r.k = "var" THEN {c.r.name} ELSE {})
                        \cup UNION {IF e.k = "rec"
                                    THEN {e.fields[i].e.name : i \in {j \in 1..Len(e.fields) : e.fields[j].e.k = "var"}}
                                    ELSE {} : e \in {c.l, c.r}}
    [] c.k = "inc"   -> IF c.l.k = "var" THEN {c.l.name} ELSE {}
    [] c.k = "neg"   -> {}
    [] c.k = "or"    -> SeqUnion(Len(c.alts), LAMBDA i : BindableBody(c.alts[i]))

(* Parameters of an injectible rule: head fields that are a plain variable   *)
(* the body cannot bind - the caller must supply them.                       *)
ParamFields(r) ==
  {r.head[i].f : i \in {j \in 1..Len(r.head) :
                           r.head[j].e.k = "var"
                           /\ r.head[j].e.name \notin BindableBody(r.body)}}
InputFields(r) == ParamFields(r)

HeadExprAt(r, f) == r.head[CHOOSE i \in 1..Len(r.head) : r.head[i].f = f].e

(* A call of an injectible rule whose fields `ground` are given as values and *)
(* that uses the fields `referenced`: every referenced field must be          *)
(* computable from what the body binds and from the given plain-variable      *)
(* parameters.                                                                *)
CallOK(r, ground, referenced) ==
  LET avail == BindableBody(r.body)
               \cup {HeadExprAt(r, f).name : f \in {g \in ground : HeadExprAt(r, g).k = "var"}}
  IN \A f \in referenced : DVE(HeadExprAt(r, f)) \subseteq avail

Ready(c, bound, V, ctx) ==
  CASE c.k = "atom"  -> \* an argument may use variables bound by other arguments of the same atom
                        LET own == {c.args[i].e.name : i \in {j \in 1..Len(c.args) :
                                                               BareUnbound(c.args[j].e, bound)}}
                            inl == ctx.preds[c.p].inline
                            gnd0 == {c.args[i].f : i \in {j \in 1..Len(c.args) :
                                      ~BareUnbound(c.args[j].e, bound)
                                      /\ Ground(c.args[j].e, bound, V)}}
                            fs == {c.args[i].f : i \in 1..Len(c.args)}
                            \* P(x, x): a variable that one argument of the call
                            \* outputs may serve as the value of another argument
                            outv == IF inl
                                    THEN {c.args[i].e.name : i \in {j \in 1..Len(c.args) :
                                            BareUnbound(c.args[j].e, bound)
                                            /\ CallOK(ctx.preds[c.p].rules[1], gnd0, {c.args[j].f})}}
                                    ELSE {}
                            gnd == gnd0 \cup {c.args[i].f : i \in {j \in 1..Len(c.args) :
                                      BareUnbound(c.args[j].e, bound)
                                      /\ c.args[j].e.name \in outv
                                      /\ ~CallOK(ctx.preds[c.p].rules[1], gnd0, {c.args[j].f})}}
                        IN /\ inl => CallOK(ctx.preds[c.p].rules[1], gnd, fs)
                           /\ \A i \in 1..Len(c.args) :
                                BareUnbound(c.args[i].e, bound)
                                \/ Ground(c.args[i].e, bound \cup own, V)
    [] c.k = "cmp"   -> Ground(c.e, bound, V)
    [] c.k = "unify" -> \/ Ground(c.l, bound, V) /\ Ground(c.r, bound, V)
                        \/ BareUnbound(c.l, bound) /\ Ground(c.r, bound, V)
                        \/ Ground(c.l, bound, V) /\ BareUnbound(c.r, bound)
                        \* {a: x, b: y} == r : assignment to variables in record fields
                        \/ RecPattern(c.l, bound, V) /\ Ground(c.r, bound, V)
                        \/ Ground(c.l, bound, V) /\ RecPattern(c.r, bound, V)
    [] c.k = "inc"   -> Ground(c.r, bound, V)
                        /\ (BareUnbound(c.l, bound) \/ Ground(c.l, bound, V))
    [] c.k = "neg"   -> (AVBody(c.body) \cap V) \subseteq bound
    [] c.k = "or"    -> FALSE

-----------------------------------------------------------------------------
(* ctx = [preds |-> name -> pred, db |-> name -> Seq(row)]                  *)

PredOf(ctx, p) == ctx.preds[p]
IsInline(ctx, p) == PredOf(ctx, p).inline

RECURSIVE Solve(_, _, _, _), Apply(_, _, _, _), EvalM(_, _, _, _),
          Lookup(_, _, _), MatchArgs(_, _, _), InlineCall(_, _, _)

(* Lookup(p, pat, ctx): pat is a sequence of <<field, "v", value>> (the row *)
(* must carry this value) or <<field, "u", var>> (var gets the row's value). *)
(* Result: sequence of bindings of the "u" variables only, one per matching *)
(* row (with multiplicity).                                                 *)
MatchArgs(row, pat, acc) ==
  IF pat = <<>> THEN <<acc>>
  ELSE LET a == pat[1]
           rv == row[a[1]]
       IN IF a[2] = "v"
          THEN IF Cmp3("==", rv, a[3]) = "t" THEN MatchArgs(row, Tail(pat), acc) ELSE <<>>
          ELSE IF a[3] \in DOMAIN acc
               THEN IF Cmp3("==", rv, acc[a[3]]) = "t"
                    THEN MatchArgs(row, Tail(pat), acc) ELSE <<>>
               ELSE MatchArgs(row, Tail(pat), Bind(acc, a[3], rv))

HeadExprOf(r, f) == r.head[CHOOSE i \in 1..Len(r.head) : r.head[i].f = f].e

(* Call of an injectible predicate: its single rule's body solved with the *)
(* given arguments pre-bound (when the head argument is a plain variable)  *)
(* or checked afterwards (when it is an expression).                       *)
InlineCall(p, pat, ctx) ==
  LET r == PredOf(ctx, p).rules[1]
      V == RuleScope(r)
      \* pre-binding of head variables from "v" arguments
      PreIdx == {i \in 1..Len(pat) : pat[i][2] = "v" /\ HeadExprOf(r, pat[i][1]).k = "var"}
      RECURSIVE Pre(_, _)
      Pre(idx, acc) ==
        IF idx = {} THEN <<acc>>
        ELSE LET i == CHOOSE i \in idx : \A j \in idx : i <= j
                 x == HeadExprOf(r, pat[i][1]).name
             IN IF x \in DOMAIN acc
                THEN IF Cmp3("==", acc[x], pat[i][3]) = "t" THEN Pre(idx \ {i}, acc) ELSE <<>>
                ELSE Pre(idx \ {i}, Bind(acc, x, pat[i][3]))   \* substitution: also for null
      pre == Pre(PreIdx, EmptyB)
      \* P(x, x) with x unbound: the caller's variable is the output of one
      \* argument and the value of a parameter (a head variable the body cannot
      \* bind).  Substitution makes the parameter an alias of that output.
      IsParamAt(i) == /\ HeadExprOf(r, pat[i][1]).k = "var"
                      /\ HeadExprOf(r, pat[i][1]).name \notin BindableBody(r.body)
      Partners(i) == {j \in 1..Len(pat) : j # i /\ pat[j][2] = "u" /\ pat[j][3] = pat[i][3]
                                           /\ ~IsParamAt(j)}
      LateIdx == {i \in 1..Len(pat) : pat[i][2] = "u" /\ IsParamAt(i) /\ Partners(i) # {}}
      aliases == SetToSortSeq(LateIdx, LAMBDA a, b : a < b)
      extra == [k \in 1..Len(aliases) |->
                  LET i == aliases[k]
                      j == CHOOSE j \in Partners(i) : \A l \in Partners(i) : j <= l
                  IN [k |-> "unify", l |-> HeadExprOf(r, pat[i][1]),
                      r |-> HeadExprOf(r, pat[j][1])]]
      sols == Solve(r.body \o extra, pre, V, ctx)
      \* the arguments that were not substituted are evaluated and matched
      rest == SelectSeq([i \in 1..Len(pat) |-> IF i \in PreIdx \cup LateIdx THEN <<>> ELSE pat[i]],
                        LAMBDA a : a # <<>>)
      Finish(s) ==
        LET hv == Cross([i \in 1..Len(rest) |-> EvalM(HeadExprOf(r, rest[i][1]), s, V, ctx)])
        IN FlatMap(hv, LAMBDA vals :
             MatchArgs([f \in {rest[i][1] : i \in 1..Len(rest)} |->
                          vals[CHOOSE i \in 1..Len(rest) : rest[i][1] = f]],
                       rest, EmptyB))
  IN FlatMap(sols, Finish)

Lookup(p, pat, ctx) ==
  IF IsInline(ctx, p) THEN InlineCall(p, pat, ctx)
  ELSE FlatMap(ctx.db[p], LAMBDA row : MatchArgs(row, pat, EmptyB))

(* All value alternatives of an expression under binding b (functional      *)
(* predicate calls may have several values; each is a separate solution).   *)
EvalM(e, b, V, ctx) ==
  CASE e.k = "var" -> <<b[e.name]>>
    [] e.k = "lit" -> <<e.v>>
    [] e.k = "op" ->
         LET alts == Cross([i \in 1..Len(e.args) |-> EvalM(e.args[i], b, V, ctx)])
         IN [j \in 1..Len(alts) |-> Builtin(e.op, alts[j])]
    [] e.k = "list" ->
         LET alts == Cross([i \in 1..Len(e.items) |-> EvalM(e.items[i], b, V, ctx)])
         IN [j \in 1..Len(alts) |-> Lst(alts[j])]
    [] e.k = "rec" ->
         LET alts == Cross([i \in 1..Len(e.fields) |-> EvalM(e.fields[i].e, b, V, ctx)])
         IN [j \in 1..Len(alts) |->
               Rec([i \in 1..Len(e.fields) |-> <<e.fields[i].f, alts[j][i]>>])]
    [] e.k = "sub" ->
         LET alts == EvalM(e.e, b, V, ctx)
         IN [j \in 1..Len(alts) |-> Field(alts[j], e.f)]
    [] e.k = "if" ->
         LET alts == Cross(<<EvalM(e.c, b, V, ctx), EvalM(e.t, b, V, ctx),
                             EvalM(e.f, b, V, ctx)>>)
         IN [j \in 1..Len(alts) |->
               IF To3(alts[j][1]) = "t" THEN alts[j][2] ELSE alts[j][3]]
    [] e.k = "pcall" ->
         LET alts == Cross([i \in 1..Len(e.args) |-> EvalM(e.args[i].e, b, V, ctx)])
             Call(vals) ==
               LET pat == [i \in 1..Len(e.args) |-> <<e.args[i].f, "v", vals[i]>>]
                            \o << <<"logica_value", "u", "$v">> >>
                   rs == Lookup(e.p, pat, ctx)
               IN [i \in 1..Len(rs) |-> rs[i]["$v"]]
         IN FlatMap(alts, Call)
    [] e.k = "agg" ->
         LET V2 == V \cup DVE(e.e) \cup DVBody(e.body)
             sols == Solve(e.body, <<b>>, V2, ctx)
             vals == FlatMap(sols, LAMBDA s : EvalM(e.e, s, V2, ctx))
         IN <<Agg(e.op, vals, ctx.dev)>>

Apply(c, b, V, ctx) ==
  LET bound == DOMAIN b IN
  CASE c.k = "atom" ->
         \* ui: plain unbound variables (bound by the row); gi: arguments ground
         \* already; li: arguments that mention variables bound by this very atom
         \* (checked against the row afterwards through a temporary "$t<i>").
         LET ui == {i \in 1..Len(c.args) : BareUnbound(c.args[i].e, bound)}
             gi == {i \in 1..Len(c.args) : i \notin ui /\ Ground(c.args[i].e, bound, V)}
             li == (1..Len(c.args)) \ (ui \cup gi)
             Tmp(i) == "$t" \o ToString(i)
             alts == Cross([i \in 1..Len(c.args) |->
                              IF i \in gi THEN EvalM(c.args[i].e, b, V, ctx)
                              ELSE <<Null>>])
             Late(b2, idx) ==
               \* bindings (with multiplicity) that survive the late arguments
               LET RECURSIVE Go(_, _)
                   Go(bs2, todo) ==
                     IF todo = {} THEN bs2
                     ELSE LET i == CHOOSE i \in todo : \A j \in todo : i <= j
                          IN Go(FlatMap(bs2, LAMBDA bb :
                                  FlatMap(EvalM(c.args[i].e, bb, V, ctx), LAMBDA v :
                                    IF Cmp3("==", v, bb[Tmp(i)]) = "t" THEN <<bb>> ELSE <<>>)),
                                todo \ {i})
               IN Go(<<b2>>, idx)
             Clean(b2) == [x \in (DOMAIN b2) \ {Tmp(i) : i \in li} |-> b2[x]]
             Call(vals) ==
               LET pat == [i \in 1..Len(c.args) |->
                             IF i \in gi THEN <<c.args[i].f, "v", vals[i]>>
                             ELSE IF i \in ui THEN <<c.args[i].f, "u", c.args[i].e.name>>
                             ELSE <<c.args[i].f, "u", Tmp(i)>>]
                   rs == Lookup(c.p, pat, ctx)
                   ext == [i \in 1..Len(rs) |-> rs[i] @@ b]
               IN IF li = {} THEN ext
                  ELSE LET kept == FlatMap(ext, LAMBDA b2 : Late(b2, li))
                       IN [i \in 1..Len(kept) |-> Clean(kept[i])]
         IN FlatMap(alts, Call)
    [] c.k = "cmp" ->
         LET vs == EvalM(c.e, b, V, ctx)
         IN FlatMap(vs, LAMBDA v : IF To3(v) = "t" THEN <<b>> ELSE <<>>)
    [] c.k = "unify" ->
         IF BareUnbound(c.l, bound)
         THEN LET vs == EvalM(c.r, b, V, ctx)
              IN [i \in 1..Len(vs) |-> Bind(b, c.l.name, vs[i])]
         ELSE IF BareUnbound(c.r, bound)
         THEN LET vs == EvalM(c.l, b, V, ctx)
              IN [i \in 1..Len(vs) |-> Bind(b, c.r.name, vs[i])]
         ELSE IF (RecPattern(c.l, bound, V) /\ Ground(c.r, bound, V))
                 \/ (RecPattern(c.r, bound, V) /\ Ground(c.l, bound, V))
         THEN \* the record value is taken apart: unbound field variables are
              \* bound to the fields, ground fields are compared
              LET pat == IF RecPattern(c.l, bound, V) /\ Ground(c.r, bound, V) THEN c.l ELSE c.r
                  oth == IF RecPattern(c.l, bound, V) /\ Ground(c.r, bound, V) THEN c.r ELSE c.l
                  vs == EvalM(oth, b, V, ctx)
                  RECURSIVE Take(_, _, _)
                  Take(v, i, acc) ==
                    IF i > Len(pat.fields) THEN <<acc>>
                    ELSE LET fe == pat.fields[i].e
                             fv == Field(v, pat.fields[i].f)
                         IN IF BareUnbound(fe, bound)
                            THEN Take(v, i + 1, Bind(acc, fe.name, fv))
                            ELSE FlatMap(EvalM(fe, b, V, ctx), LAMBDA w :
                                   IF Cmp3("==", w, fv) = "t" THEN Take(v, i + 1, acc) ELSE <<>>)
              IN FlatMap(vs, LAMBDA v : IF v[1] = "r" THEN Take(v, 1, b) ELSE <<>>)
         ELSE LET alts == Cross(<<EvalM(c.l, b, V, ctx), EvalM(c.r, b, V, ctx)>>)
              IN FlatMap(alts, LAMBDA p : IF Cmp3("==", p[1], p[2]) = "t" THEN <<b>> ELSE <<>>)
    [] c.k = "inc" ->
         LET ls == EvalM(c.r, b, V, ctx)
             Elems(lv) == IF lv[1] \in {"l", "m"} THEN lv[2] ELSE <<>>
         IN IF BareUnbound(c.l, bound)
            THEN FlatMap(ls, LAMBDA lv :
                   [i \in 1..Len(Elems(lv)) |-> Bind(b, c.l.name, Elems(lv)[i])])
            ELSE LET xs == EvalM(c.l, b, V, ctx)
                 IN FlatMap(Cross(<<xs, ls>>), LAMBDA p :
                      FlatMap(Elems(p[2]), LAMBDA el :
                        IF Cmp3("==", p[1], el) = "t" THEN <<b>> ELSE <<>>))
    [] c.k = "neg" ->
         IF Solve(c.body, <<b>>, V \cup DVBody(c.body), ctx) = <<>> THEN <<b>> ELSE <<>>

FirstOr(body) == CHOOSE i \in 1..Len(body) :
                   body[i].k = "or" /\ \A j \in 1..(i - 1) : body[j].k # "or"

Solve(body, bs, V, ctx) ==
  IF bs = <<>> THEN <<>>
  ELSE IF body = <<>> THEN bs
  ELSE IF \E i \in 1..Len(body) : body[i].k = "or"
  THEN LET i == FirstOr(body)
           pre == SubSeq(body, 1, i - 1)
           post == SubSeq(body, i + 1, Len(body))
       IN Flatten([a \in 1..Len(body[i].alts) |->
                     Solve(pre \o body[i].alts[a] \o post, bs, V, ctx)])
  ELSE LET bound == DOMAIN bs[1]
           ready == {i \in 1..Len(body) : Ready(body[i], bound, V, ctx)}
       IN IF ready = {}
          THEN Assert(FALSE, <<"LSem: rule body is not range-restricted (stuck)", body, bound>>)
          ELSE LET i == CHOOSE i \in ready : \A j \in ready : i <= j
               IN Solve(RemoveAt(body, i),
                        FlatMap(bs, LAMBDA b : Apply(body[i], b, V, ctx)), V, ctx)

-----------------------------------------------------------------------------
(* Rows of one predicate, given the rows of the predicates it reads.        *)

HeadFields(r) == {r.head[i].f : i \in 1..Len(r.head)}
AggFields(r) == {r.head[i].f : i \in {j \in 1..Len(r.head) : r.head[j].agg # ""}}
HeadIdx(r, f) == CHOOSE i \in 1..Len(r.head) : r.head[i].f = f

(* One record per (solution x head value alternatives). *)
RuleRows(r, ctx) ==
  LET V == RuleScope(r)
      sols == Solve(r.body, <<EmptyB>>, V, ctx)
      One(s) ==
        LET alts == Cross([i \in 1..Len(r.head) |-> EvalM(r.head[i].e, s, V, ctx)])
        IN [j \in 1..Len(alts) |-> [f \in HeadFields(r) |-> alts[j][HeadIdx(r, f)]]]
  IN FlatMap(sols, One)

OrderLess(keys, a, b) ==
  \* keys: Seq([f, desc]); strict lexicographic order of rows
  \E i \in 1..Len(keys) :
     /\ \A j \in 1..(i - 1) : a[keys[j].f] = b[keys[j].f]
     /\ IF keys[i].desc THEN VLess(b[keys[i].f], a[keys[i].f])
        ELSE VLess(a[keys[i].f], b[keys[i].f])

RECURSIVE InsertRow(_, _, _)
InsertRow(keys, r, s) ==
  IF s = <<>> THEN <<r>>
  ELSE IF OrderLess(keys, r, s[1]) THEN <<r>> \o s
  ELSE <<s[1]>> \o InsertRow(keys, r, Tail(s))
RECURSIVE SortRows(_, _)
SortRows(keys, s) == IF s = <<>> THEN <<>>
                     ELSE InsertRow(keys, s[Len(s)], SortRows(keys, SubSeq(s, 1, Len(s) - 1)))

OrdLimit(pred, rows) ==
  LET sorted == IF pred.order = <<>> THEN rows ELSE SortRows(pred.order, rows)
  IN IF pred.limit < 0 THEN sorted
     ELSE SubSeq(sorted, 1, IF pred.limit < Len(sorted) THEN pred.limit ELSE Len(sorted))

PredRows(pred, ctx) ==
  IF pred.rules = <<>> THEN <<>> ELSE    \* a predicate without rules (nil) is empty
  LET rules == pred.rules
      all == Flatten([i \in 1..Len(rules) |-> RuleRows(rules[i], ctx)])
      r1 == rules[1]
      raw ==
        IF ~r1.distinct THEN all
        ELSE LET aggF == AggFields(r1)
                 keyF == HeadFields(r1) \ aggF
                 KeyOf(row) == [f \in keyF |-> row[f]]
                 keys == {KeyOf(all[i]) : i \in 1..Len(all)}
                 Group(k) == SelectSeq(all, LAMBDA row : KeyOf(row) = k)
                 RowOf(k) == [f \in HeadFields(r1) |->
                                IF f \in keyF THEN k[f]
                                ELSE Agg(r1.head[HeadIdx(r1, f)].agg,
                                         [i \in 1..Len(Group(k)) |-> Group(k)[i][f]], ctx.dev)]
                 EmptyKey == [f \in {} |-> Null]
             IN IF keyF = {} /\ all = <<>> /\ "zero_key_one_row" \in ctx.dev
                THEN <<RowOf(EmptyKey)>>
                ELSE [i \in 1..Cardinality(keys) |-> RowOf(SetToSeq(keys)[i])]
  IN OrdLimit(pred, raw)

-----------------------------------------------------------------------------
(* Which predicates a predicate reads (through injectible ones).            *)
RECURSIVE PE(_), PC(_)
PBody(body) == SeqUnion(Len(body), LAMBDA i : PC(body[i]))
PE(e) ==
  CASE e.k = "var"  -> {}
    [] e.k = "lit"  -> {}
    [] e.k = "op"   -> SeqUnion(Len(e.args), LAMBDA i : PE(e.args[i]))
    [] e.k = "list" -> SeqUnion(Len(e.items), LAMBDA i : PE(e.items[i]))
    [] e.k = "rec"  -> SeqUnion(Len(e.fields), LAMBDA i : PE(e.fields[i].e))
    [] e.k = "sub"  -> PE(e.e)
    [] e.k = "if"   -> PE(e.c) \cup PE(e.t) \cup PE(e.f)
    [] e.k = "pcall" -> {e.p} \cup SeqUnion(Len(e.args), LAMBDA i : PE(e.args[i].e))
    [] e.k = "agg"  -> PE(e.e) \cup PBody(e.body)
PC(c) ==
  CASE c.k = "atom"  -> {c.p} \cup SeqUnion(Len(c.args), LAMBDA i : PE(c.args[i].e))
    [] c.k = "cmp"   -> PE(c.e)
    [] c.k = "unify" -> PE(c.l) \cup PE(c.r)
    [] c.k = "inc"   -> PE(c.l) \cup PE(c.r)
    [] c.k = "neg"   -> PBody(c.body)
    [] c.k = "or"    -> SeqUnion(Len(c.alts), LAMBDA i : PBody(c.alts[i]))

Mentions(pred) ==
  SeqUnion(Len(pred.rules), LAMBDA i :
    PBody(pred.rules[i].body)
    \cup SeqUnion(Len(pred.rules[i].head), LAMBDA j : PE(pred.rules[i].head[j].e)))

PredMap(prog) == [n \in {prog.preds[i].name : i \in 1..Len(prog.preds)} |->
                    prog.preds[CHOOSE i \in 1..Len(prog.preds) : prog.preds[i].name = n]]

RECURSIVE Reads(_, _, _)
(* Materialised predicates needed by the predicates in `todo`. *)
Reads(pm, todo, seen) ==
  IF todo = {} THEN {p \in seen : ~pm[p].inline}
  ELSE LET p == CHOOSE p \in todo : TRUE
           new == IF pm[p].inline \/ p \notin seen
                  THEN Mentions(pm[p]) \ (seen \cup {p}) ELSE {}
       IN Reads(pm, (todo \ {p}) \cup new, seen \cup {p} \cup new)

NeedsOf(pm, p) == {q \in Reads(pm, Mentions(pm[p]), Mentions(pm[p])) : TRUE}

-----------------------------------------------------------------------------
(* Recursion: a recursive component C (set of predicate names) with depth d *)
(* is evaluated by d+1 simultaneous applications of the rules from empty    *)
(* relations.  prog.rec is a sequence of [members: Seq(name), depth: Nat].  *)

EmptyDb == ("$" :> <<>>)

RECURSIVE SimIter(_, _, _, _, _, _)
SimIter(pm, members, cur, db, n, dev) ==
  IF n = 0 THEN cur
  ELSE LET ctx == [preds |-> pm, db |-> cur @@ db, dev |-> dev]
           nxt == [p \in members |-> PredRows(pm[p], ctx)]
       IN SimIter(pm, members, nxt, db, n - 1, dev)

CompOf(prog, p) ==
  IF \E i \in 1..Len(prog.rec) : p \in Range(prog.rec[i].members)
  THEN prog.rec[CHOOSE i \in 1..Len(prog.rec) : p \in Range(prog.rec[i].members)]
  ELSE [members |-> <<p>>, depth |-> -1]

RECURSIVE EvalPreds(_, _, _, _, _)
EvalPreds(prog, pm, todo, db, dev) ==
  IF todo = {} THEN db
  ELSE LET ready == {p \in todo :
                       LET c == CompOf(prog, p) IN
                       \A q \in Range(c.members) :
                         (NeedsOf(pm, q) \ Range(c.members)) \subseteq DOMAIN db}
       IN IF ready = {}
          THEN Assert(FALSE, <<"LSem: cyclic dependency without recursion component", todo>>)
          ELSE LET p == CHOOSE p \in ready : TRUE
                   c == CompOf(prog, p)
                   ms == Range(c.members)
               IN IF c.depth < 0
                  THEN EvalPreds(prog, pm, todo \ {p},
                                 (p :> PredRows(pm[p], [preds |-> pm, db |-> db, dev |-> dev])) @@ db, dev)
                  ELSE EvalPreds(prog, pm, todo \ ms,
                                 SimIter(pm, ms, [q \in ms |-> <<>>], db, c.depth + 1, dev) @@ db, dev)

(* ---- functors (property C04) --------------------------------------------- *)
(* `N := F(A: B, ...)`: N is F with every use of A, direct or through the    *)
(* predicates F is built from, replaced by B.  Stated as a program           *)
(* transformation: the predicates reachable from F that (transitively) read  *)
(* a key are cloned under fresh names, keys are replaced by values inside    *)
(* the clones, and N names the clone of F.  Everything else is untouched.    *)
(* prog.makes: Seq([name, functor, args: Seq([k, v])]), in dependency order. *)
RECURSIVE RenE(_, _), RenC(_, _)
RenArgs(args, m) == [i \in 1..Len(args) |-> [args[i] EXCEPT !.e = RenE(@, m)]]
RenBody(body, m) == [i \in 1..Len(body) |-> RenC(body[i], m)]
MapName(p, m) == IF p \in DOMAIN m THEN m[p] ELSE p
RenE(e, m) ==
  CASE e.k = "var"  -> e
    [] e.k = "lit"  -> e
    [] e.k = "op"   -> [e EXCEPT !.args = [i \in 1..Len(e.args) |-> RenE(e.args[i], m)]]
    [] e.k = "list" -> [e EXCEPT !.items = [i \in 1..Len(e.items) |-> RenE(e.items[i], m)]]
    [] e.k = "rec"  -> [e EXCEPT !.fields = RenArgs(e.fields, m)]
    [] e.k = "sub"  -> [e EXCEPT !.e = RenE(@, m)]
    [] e.k = "if"   -> [e EXCEPT !.c = RenE(@, m), !.t = RenE(@, m), !.f = RenE(@, m)]
    [] e.k = "pcall" -> [e EXCEPT !.p = MapName(@, m), !.args = RenArgs(@, m)]
    [] e.k = "agg"  -> [e EXCEPT !.e = RenE(@, m), !.body = RenBody(@, m)]
RenC(c, m) ==
  CASE c.k = "atom"  -> [c EXCEPT !.p = MapName(@, m), !.args = RenArgs(@, m)]
    [] c.k = "cmp"   -> [c EXCEPT !.e = RenE(@, m)]
    [] c.k = "unify" -> [c EXCEPT !.l = RenE(@, m), !.r = RenE(@, m)]
    [] c.k = "inc"   -> [c EXCEPT !.l = RenE(@, m), !.r = RenE(@, m)]
    [] c.k = "neg"   -> [c EXCEPT !.body = RenBody(@, m)]
    [] c.k = "or"    -> [c EXCEPT !.alts = [i \in 1..Len(c.alts) |-> RenBody(c.alts[i], m)]]
RenRule(r, m) == [r EXCEPT !.head = RenArgs(@, m), !.body = RenBody(@, m)]

(* all predicates reachable from p (reflexive), through any predicate *)
RECURSIVE ReachAll(_, _, _)
ReachAll(pm, seen, frontier) ==
  IF frontier = {} THEN seen
  ELSE LET nxt == (UNION {Mentions(pm[q]) \cap DOMAIN pm : q \in frontier}) \ seen
       IN ReachAll(pm, seen \cup nxt, nxt)

CloneName(q, n, f) == IF q = f THEN n ELSE q \o "_of_" \o n

ApplyMake(preds, mk) ==
  LET pm == [n \in {preds[i].name : i \in 1..Len(preds)} |->
               preds[CHOOSE i \in 1..Len(preds) : preds[i].name = n]]
      keys == {mk.args[i].k : i \in 1..Len(mk.args)}
      below == ReachAll(pm, {mk.functor}, {mk.functor})
      affected == {q \in below \ keys :
                     ReachAll(pm, {q}, {q}) \cap keys # {}} \cup {mk.functor}
      m == [q \in affected \cup keys |->
              IF q \in keys
              THEN mk.args[CHOOSE i \in 1..Len(mk.args) : mk.args[i].k = q].v
              ELSE CloneName(q, mk.name, mk.functor)]
      order == SelectSeq([i \in 1..Len(preds) |-> preds[i].name], LAMBDA q : q \in affected)
      clones == [i \in 1..Len(order) |->
                   [pm[order[i]] EXCEPT !.name = m[order[i]],
                                        !.rules = [j \in 1..Len(@) |-> RenRule(@[j], m)]]]
      \* the made predicate may also have hand-written rules and its own
      \* order_by / limit: then the clone's rules are added to that predicate
      own == {i \in 1..Len(preds) : preds[i].name = mk.name}
      fclone == clones[CHOOSE i \in 1..Len(order) : order[i] = mk.functor]
  IN IF own = {} THEN preds \o clones
     ELSE [i \in 1..Len(preds) |->
             IF i \in own THEN [preds[i] EXCEPT !.rules = @ \o fclone.rules] ELSE preds[i]]
          \o SelectSeq(clones, LAMBDA c : c.name # mk.name)

RECURSIVE ApplyMakes(_, _)
ApplyMakes(preds, makes) ==
  IF makes = <<>> THEN preds ELSE ApplyMakes(ApplyMake(preds, makes[1]), Tail(makes))

ExpandMakes(prog) == [prog EXCEPT !.preds = ApplyMakes(prog.preds, prog.makes)]

(* ---- strategy-independent reading of recursion (property C03) ----------- *)
(* The exact count of applications is prescribed for self recursion, for    *)
(* iterative execution (depth > 20 or iterative: true) and for groups that  *)
(* cannot be cut at any single member (they can only be unfolded flat).     *)
(* For the other mutually recursive groups only the interval                *)
(*   SimIter(depth+1)  <=  result  <=  least fixpoint        (as sets)      *)
(* is prescribed.                                                           *)
ReachWithin(pm, ms, from) ==
  \* members of ms reachable from `from` through edges inside ms
  LET RECURSIVE Go(_, _)
      Go(seen, frontier) ==
        IF frontier = {} THEN seen
        ELSE LET nxt == (UNION {NeedsOf(pm, q) \cap ms : q \in frontier}) \ seen
             IN Go(seen \cup nxt, nxt)
  IN Go({}, from)
Acyclic(pm, ms) == \A q \in ms : q \notin ReachWithin(pm, ms, {q})
HasCut(pm, ms) == \E q \in ms : Acyclic(pm, ms \ {q})
ExactComp(pm, c) ==
  c.depth >= 0 /\ (Len(c.members) = 1 \/ c.iterative \/ c.depth > 20
                   \/ ~HasCut(pm, Range(c.members)))

RowSet(rows) == {rows[i] : i \in 1..Len(rows)}
SetLE(a, b) == RowSet(a) \subseteq RowSet(b)

(* Iterate a component further until it is stable as sets (or fuel ends). *)
RECURSIVE FixFrom(_, _, _, _, _, _)
FixFrom(pm, ms, cur, db, fuel, dev) ==
  LET ctx == [preds |-> pm, db |-> cur @@ db, dev |-> dev]
      nxt == [p \in ms |-> PredRows(pm[p], ctx)]
  IN IF \A p \in ms : RowSet(nxt[p]) = RowSet(cur[p]) THEN [rows |-> cur, conv |-> TRUE]
     ELSE IF fuel = 0 THEN [rows |-> nxt, conv |-> FALSE]
     ELSE FixFrom(pm, ms, nxt, db, fuel - 1, dev)

UpperOf(prog, den, c, dev) ==
  LET pm == PredMap(prog)
      ms == Range(c.members)
  IN FixFrom(pm, ms, [p \in ms |-> den[p]], den, 2 * c.depth + 6, dev)

RECURSIVE DepsT(_, _, _)
DepsT(pm, seen, frontier) ==
  IF frontier = {} THEN seen
  ELSE LET nxt == (UNION {NeedsOf(pm, q) : q \in frontier}) \ seen
       IN DepsT(pm, seen \cup nxt, nxt)

DenDev(prog0, dev) ==
  LET prog == ExpandMakes(prog0)
      pm == PredMap(prog)
      mat == {p \in DOMAIN pm : ~pm[p].inline}
  IN EvalPreds(prog, pm, mat, EmptyDb, dev)

Den(prog) == DenDev(prog, {})

-----------------------------------------------------------------------------
(* Comparing an observed table with the denoted bag.                        *)
RowMatch(e, o) == DOMAIN e = DOMAIN o /\ \A f \in DOMAIN e : VMatch(e[f], o[f])

RowHasAny(e) == \E f \in DOMAIN e : HasAny(e[f])

RECURSIVE BagMatch(_, _)
BagMatch(es, os) ==
  IF es = <<>> THEN os = <<>>
  ELSE LET cands == {i \in 1..Len(os) : RowMatch(es[1], os[i])}
       IN IF cands = {} THEN FALSE
          ELSE IF ~RowHasAny(es[1])
          \* without a tie the matching rows are interchangeable: no backtracking
          THEN BagMatch(Tail(es), RemoveAt(os, CHOOSE i \in cands : \A j \in cands : i <= j))
          ELSE \E i \in cands : BagMatch(Tail(es), RemoveAt(os, i))

SeqMatch(es, os) == Len(es) = Len(os) /\ \A i \in 1..Len(es) : RowMatch(es[i], os[i])

=============================================================================
