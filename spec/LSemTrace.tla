----------------------------- MODULE LSemTrace -----------------------------
(***************************************************************************)
(* Validates recorded executions of the real pipeline against LSem.        *)
(* Input: ndjson ($TRACE_FILE), one case per line:                         *)
(*   [id, prog, dev: Seq(deviation name), obs: Seq([p, ordered, rows])]    *)
(* where rows are what SQLite returned for predicate p of the program.     *)
(* One TLC state per case; each state prints one verdict tuple             *)
(*   <<"V", id, pred, "ok" | "bad", expectedRows>>                         *)
(* and the run's POSTCONDITION requires every verdict to be "ok".          *)
(***************************************************************************)
EXTENDS LSem, Json, IOUtils, TLCExt

Cases == ndJsonDeserialize(IOEnv.TRACE_FILE)

VARIABLE i

Verdicts(c) ==
  LET den == DenDev(c.prog, Range(c.dev))
  IN [k \in 1..Len(c.obs) |->
        LET o == c.obs[k]
            e == den[o.p]
            good == IF o.ordered THEN SeqMatch(e, o.rows) ELSE BagMatch(e, o.rows)
        IN [id |-> c.id, p |-> o.p, ok |-> good, exp |-> e]]

AllOk(vs) == \A k \in 1..Len(vs) : vs[k].ok

Init == i = 1 /\ TLCSet(1, 0)

Next ==
  /\ i <= Len(Cases)
  /\ LET vs == Verdicts(Cases[i])
     IN /\ \A k \in 1..Len(vs) : PrintT(<<"V", ToJson(vs[k])>>)
        /\ IF AllOk(vs) THEN TRUE ELSE TLCSet(1, TLCGet(1) + 1)
  /\ i' = i + 1

Spec == Init /\ [][Next]_i

Accepted == TLCGet(1) = 0 /\ TLCGet("stats").diameter - 1 = Len(Cases)
=============================================================================
