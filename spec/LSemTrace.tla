----------------------------- MODULE LSemTrace -----------------------------
(***************************************************************************)
(* Validates recorded executions of the real pipeline against LSem.        *)
(* Input: ndjson ($TRACE_FILE), one case per line:                         *)
(*   [id, prog, dev: Seq(deviation name), obs: Seq([p, ordered, rows])]    *)
(* where rows are what SQLite returned for predicate p of the program.     *)
(* One TLC state per case; each state prints one verdict tuple             *)
(*   <<"V", id, pred, "ok" | "bad", expectedRows>>                         *)
(* and the run's POSTCONDITION requires every verdict to be "ok".          *)
(***************************************************************************)
EXTENDS LStatic, Json, IOUtils, TLCExt

(* The file is read once (TLC does not cache IOEnv-dependent definitions). *)
Cases == TLCGet(2)

VARIABLE pos

Verdicts(c) ==
  LET den == DenDev(c.prog, Range(c.dev))
      pm == PredMap(ExpandMakes(c.prog))
      dev == Range(c.dev)
      \* mutually recursive groups for which only the interval is prescribed
      loose == {k \in 1..Len(c.prog.rec) : ~ExactComp(pm, c.prog.rec[k])}
      upper == [k \in loose |-> UpperOf(c.prog, den, c.prog.rec[k], dev)]
      open == UNION {Range(c.prog.rec[k].members) : k \in {j \in loose : ~upper[j].conv}}
      ties == {q \in DOMAIN den \ {"$"} :
                 \E i \in 1..Len(den[q]) : \E f \in DOMAIN den[q][i] : HasAny(den[q][i][f])}
      (* Stage validation: what a compiler pass produced (projected into the  *)
      (* IR by harness/project.py) must still denote what the source program  *)
      (* denotes; its denoted rows are judged exactly like observed rows.     *)
      StageRows(s) ==
        LET eff == EffectivePreds(s.prog)
            sp == [s.prog EXCEPT !.preds =
                     [i \in 1..Len(s.prog.preds) |-> eff[s.prog.preds[i].name]]]
            sd == DenDev(sp, dev)
        IN SelectSeq([k \in 1..Len(c.obs) |->
                        IF c.obs[k].p \in DOMAIN sd
                        THEN [p |-> c.obs[k].p, ordered |-> FALSE, stage |-> s.name,
                              rows |-> [i \in 1..Len(sd[c.obs[k].p]) |->
                                          [f \in DOMAIN sd[c.obs[k].p][i] |->
                                             Concrete(sd[c.obs[k].p][i][f])]]]
                        ELSE [p |-> "", ordered |-> FALSE, stage |-> s.name, rows |-> <<>>]],
                     LAMBDA o : o.p # "")
      allObs == [k \in 1..Len(c.obs) |-> [c.obs[k] EXCEPT !.ordered = @] @@ [stage |-> ""]]
                \o Flatten([j \in 1..Len(c.stages) |-> StageRows(c.stages[j])])
  IN [k \in 1..Len(allObs) |->
        LET o == allObs[k]
            e == den[o.p]
            mine == {j \in loose : o.p \in Range(c.prog.rec[j].members)}
            tainted == \/ (DepsT(pm, {}, {o.p}) \ (IF mine = {} THEN {}
                             ELSE Range(c.prog.rec[CHOOSE j \in mine : TRUE].members)))
                          \cap open # {}
                       \* a predicate that reads a tied ArgMin/ArgMax choice of another
                       \* predicate has no unique denotation: not judged
                       \/ (DepsT(pm, {}, {o.p}) \ {o.p}) \cap ties # {}
            good ==
              IF tainted THEN TRUE
              ELSE IF mine # {}
              THEN LET j == CHOOSE j \in mine : TRUE
                   IN /\ \A i \in 1..Len(e) : \E r \in 1..Len(o.rows) : RowMatch(e[i], o.rows[r])
                      /\ upper[j].conv =>
                           \A r \in 1..Len(o.rows) :
                              \E i \in 1..Len(upper[j].rows[o.p]) :
                                 RowMatch(upper[j].rows[o.p][i], o.rows[r])
              ELSE IF o.ordered THEN SeqMatch(e, o.rows) ELSE BagMatch(e, o.rows)
        IN [id |-> c.id,
            p |-> IF o.stage = "" THEN o.p ELSE "$stage:" \o o.stage \o ":" \o o.p,
            ok |-> good, exp |-> IF o.stage = "" THEN e ELSE o.rows,
            mode |-> IF tainted THEN "skipped" ELSE IF mine # {} THEN "interval" ELSE "exact"]]

(* Metamorphic cases carry the program they were derived from (base: a     *)
(* sequence of zero or one programs) and the correspondence of predicate    *)
(* names qmap: Seq([b, v]).  The model-level theorem "the transformation    *)
(* preserves Den" is checked here, on the specification alone.              *)
BagEq(a, b) ==
  \A r \in Range(a) \cup Range(b) :
     Cardinality({j \in 1..Len(a) : a[j] = r}) = Cardinality({j \in 1..Len(b) : b[j] = r})

Theorem(c) ==
  IF Len(c.base) = 0 THEN <<>>
  ELSE LET db == DenDev(c.base[1], Range(c.dev))
           dv == DenDev(c.prog, Range(c.dev))
           good == \A k \in 1..Len(c.qmap) :
                      IF c.qmap[k].ordered
                      THEN db[c.qmap[k].b] = dv[c.qmap[k].v]
                      ELSE BagEq(db[c.qmap[k].b], dv[c.qmap[k].v])
       IN << [id |-> c.id, p |-> "$theorem", ok |-> good, exp |-> <<>>] >>

(* Observed table of the variant = observed table of the base (bags; the   *)
(* element order inside list values is ignored).  Used to recognise a       *)
(* disagreement with Den that the variant merely inherits from its base.    *)
RECURSIVE CanonV(_)
CanonV(v) == CASE v[1] = "l" -> <<"l", SortVals([k \in 1..Len(v[2]) |-> CanonV(v[2][k])])>>
               [] OTHER -> v
CanonRows(rows) == [k \in 1..Len(rows) |-> [f \in DOMAIN rows[k] |-> CanonV(rows[k][f])]]
SameAsBase(c) ==
  [k \in 1..Len(c.bobs) |->
     LET mine == SelectSeq(c.obs, LAMBDA o : o.p = c.bobs[k].p)
     IN [id |-> c.id, p |-> "$same:" \o c.bobs[k].p,
         ok |-> Len(mine) = 1 /\ BagEq(CanonRows(mine[1].rows), CanonRows(c.bobs[k].rows)),
         exp |-> <<>>]]

AllOk(vs) == \A k \in 1..Len(vs) : vs[k].ok

Init == pos = 1 /\ TLCSet(1, 0) /\ TLCSet(2, ndJsonDeserialize(IOEnv.TRACE_FILE))

Next ==
  /\ pos <= Len(Cases)
  /\ LET vs == Verdicts(Cases[pos]) \o Theorem(Cases[pos])
         ws == SameAsBase(Cases[pos])
     IN /\ \A k \in 1..Len(vs) : PrintT(<<"V", ToJson(vs[k])>>)
        /\ \A k \in 1..Len(ws) : PrintT(<<"V", ToJson(ws[k])>>)
        /\ IF AllOk(vs) THEN TRUE ELSE TLCSet(1, TLCGet(1) + 1)
  /\ pos' = pos + 1

Spec == Init /\ [][Next]_pos

Accepted == TLCGet(1) = 0 /\ TLCGet("stats").diameter - 1 = Len(Cases)
=============================================================================
