------------------------------- MODULE LStatic -------------------------------
(***************************************************************************)
(* Static validity of a program (property C19): which programs must be     *)
(* rejected with a diagnostic instead of being compiled.                   *)
(*  - range restriction: every variable of a head, comparison, negation or *)
(*    aggregating expression is bound by a positive literal, `in`, or a    *)
(*    chain of assignments from bound variables.  Stated operationally     *)
(*    with the very readiness rule LSem!Solve evaluates with, so that      *)
(*    Valid(prog) implies that Den(prog) is defined;                       *)
(*  - an aggregated head argument needs `distinct`;                        *)
(*  - all rules of a predicate agree on `distinct`;                        *)
(*  - a recursive group has a rule that does not read the group (base);    *)
(*  - a functor is applied only to predicates it depends on;               *)
(*  - annotations name existing predicates.                                *)
(* prog additionally carries annpreds: Seq(name) - the predicates named by *)
(* annotations, and reserved: Seq(name) - the variables of the program     *)
(* whose names begin with the prefix x_ that the language reserves for the *)
(* compiler (a lexical fact, supplied with the program).                   *)
(***************************************************************************)
EXTENDS LSem

(* Variables a ready conjunct binds. *)
BindsOf(c, bound) ==
  CASE c.k = "atom"  -> {c.args[i].e.name : i \in {j \in 1..Len(c.args) :
                                                    BareUnbound(c.args[j].e, bound)}}
    [] c.k = "unify" -> (IF BareUnbound(c.l, bound) THEN {c.l.name} ELSE {})
                        \cup (IF BareUnbound(c.r, bound) THEN {c.r.name} ELSE {})
    [] c.k = "inc"   -> IF BareUnbound(c.l, bound) THEN {c.l.name} ELSE {}
    [] OTHER -> {}

RECURSIVE SafeBody(_, _, _, _), SafeExpr(_, _, _, _), SafeConjInner(_, _, _, _)

(* Aggregating expressions nested in e are safe when evaluated with `bound`. *)
SafeExpr(e, bound, V, ctx) ==
  CASE e.k = "var"  -> TRUE
    [] e.k = "lit"  -> TRUE
    [] e.k = "op"   -> \A i \in 1..Len(e.args) : SafeExpr(e.args[i], bound, V, ctx)
    [] e.k = "list" -> \A i \in 1..Len(e.items) : SafeExpr(e.items[i], bound, V, ctx)
    [] e.k = "rec"  -> \A i \in 1..Len(e.fields) : SafeExpr(e.fields[i].e, bound, V, ctx)
    [] e.k = "sub"  -> SafeExpr(e.e, bound, V, ctx)
    [] e.k = "if"   -> SafeExpr(e.c, bound, V, ctx) /\ SafeExpr(e.t, bound, V, ctx)
                       /\ SafeExpr(e.f, bound, V, ctx)
    [] e.k = "pcall" ->
         /\ \A i \in 1..Len(e.args) : SafeExpr(e.args[i].e, bound, V, ctx)
         \* a call of an injectible function must supply all its inputs, and
         \* its value must be computable
         /\ ctx.preds[e.p].inline =>
              LET fs == {e.args[i].f : i \in 1..Len(e.args)}
              IN CallOK(ctx.preds[e.p].rules[1], fs, fs \cup {"logica_value"})
    [] e.k = "agg"  ->
         LET V2 == V \cup DVE(e.e) \cup DVBody(e.body)
             r == SafeBody(e.body, bound, V2, ctx)
         IN r.ok /\ DVE(e.e) \subseteq r.bound /\ SafeExpr(e.e, r.bound, V2, ctx)

SafeConjInner(c, bound, V, ctx) ==
  CASE c.k = "atom"  -> \A i \in 1..Len(c.args) : SafeExpr(c.args[i].e, bound, V, ctx)
    [] c.k = "cmp"   -> SafeExpr(c.e, bound, V, ctx)
    [] c.k = "unify" -> SafeExpr(c.l, bound, V, ctx) /\ SafeExpr(c.r, bound, V, ctx)
    [] c.k = "inc"   -> SafeExpr(c.l, bound, V, ctx) /\ SafeExpr(c.r, bound, V, ctx)
    [] c.k = "neg"   -> SafeBody(c.body, bound, V \cup DVBody(c.body), ctx).ok
    [] OTHER -> TRUE

(* [ok, bound]: can the body be ordered so that every conjunct is ready when *)
(* it is taken, and what is bound afterwards.  Disjunctions are distributed. *)
SafeBody(body, bound, V, ctx) ==
  IF body = <<>> THEN [ok |-> TRUE, bound |-> bound]
  ELSE IF \E i \in 1..Len(body) : body[i].k = "or"
  THEN LET i == FirstOr(body)
           pre == SubSeq(body, 1, i - 1)
           post == SubSeq(body, i + 1, Len(body))
           rs == [a \in 1..Len(body[i].alts) |->
                    SafeBody(pre \o body[i].alts[a] \o post, bound, V, ctx)]
       IN [ok |-> \A a \in 1..Len(rs) : rs[a].ok,
           \* bound for sure: in every alternative
           bound |-> {v \in UNION {rs[a].bound : a \in 1..Len(rs)} :
                        \A a \in 1..Len(rs) : v \in rs[a].bound}]
  ELSE LET ready == {i \in 1..Len(body) : Ready(body[i], bound, V, ctx)}
       IN IF ready = {} THEN [ok |-> FALSE, bound |-> bound]
          ELSE LET i == CHOOSE i \in ready : \A j \in ready : i <= j
                   inner == SafeConjInner(body[i], bound \cup BindsOf(body[i], bound), V, ctx)
                   rest == SafeBody(RemoveAt(body, i), bound \cup BindsOf(body[i], bound), V, ctx)
               IN [ok |-> inner /\ rest.ok, bound |-> rest.bound]

(* An injectible predicate may leave its input parameters unbound. *)
SafeRule(r, inline, ctx) ==
  LET V == RuleScope(r)
      params == IF inline
                THEN UNION {DVE(r.head[i].e) : i \in {j \in 1..Len(r.head) :
                                                        r.head[j].f \in InputFields(r)}}
                ELSE {}
      b0 == {"$"} \cup params
      res == SafeBody(r.body, b0, V, ctx)
  IN /\ res.ok
     /\ \A i \in 1..Len(r.head) :
          /\ Needed(r.head[i].e, V) \subseteq res.bound
          /\ SafeExpr(r.head[i].e, res.bound, V, ctx)

UnboundVars(r, ctx) ==
  \* variables of the rule that no ordering of its body binds (for diagnostics)
  LET V == RuleScope(r)
      res == SafeBody(r.body, {"$"}, V, ctx)
  IN (AVBody(r.body) \cup UNION {AVE(r.head[i].e) : i \in 1..Len(r.head)}) \ res.bound

AggNeedsDistinct(r) == (\E i \in 1..Len(r.head) : r.head[i].agg # "") => r.distinct
DistinctConsistent(pred) == \A i, j \in 1..Len(pred.rules) :
                               pred.rules[i].distinct = pred.rules[j].distinct

(* A predicate given by one non-distinct rule whose only defect is that some *)
(* head variables are left to the caller is an injectible function          *)
(* (docs: "Injectible predicates"): it cannot be evaluated by itself, but a  *)
(* call that supplies those arguments is fine.                               *)
RuleDefects(pred, inl, ctx) ==
  \E i \in 1..Len(pred.rules) :
     \/ ~SafeRule(pred.rules[i], inl, ctx)
     \/ ~AggNeedsDistinct(pred.rules[i])

EffectivePreds(prog) ==
  \* the predicate map in which every predicate that is only usable as an
  \* injectible function is marked inline
  LET pm == PredMap(prog)
      ctx0 == [preds |-> pm, db |-> EmptyDb, dev |-> {}]
      fun == {p \in DOMAIN pm :
                /\ ~pm[p].inline
                /\ Len(pm[p].rules) = 1 /\ ~pm[p].rules[1].distinct
                /\ \A i \in 1..Len(pm[p].rules[1].body) : pm[p].rules[1].body[i].k # "or"
                /\ pm[p].order = <<>> /\ pm[p].limit < 0
                /\ RuleDefects(pm[p], FALSE, ctx0)
                /\ ~RuleDefects(pm[p], TRUE, ctx0)}
  IN [p \in DOMAIN pm |-> IF p \in fun THEN [pm[p] EXCEPT !.inline = TRUE] ELSE pm[p]]

FunctionOnly(prog) == {p \in DOMAIN PredMap(prog) :
                         EffectivePreds(prog)[p].inline /\ ~PredMap(prog)[p].inline}

InvalidPreds(prog) ==
  LET pm == EffectivePreds(prog)
      ctx == [preds |-> pm, db |-> EmptyDb, dev |-> {}]
  IN {p \in DOMAIN pm :
        \/ RuleDefects(pm[p], pm[p].inline, ctx)
        \/ ~DistinctConsistent(pm[p])}

NoBaseComps(prog) ==
  LET pm == PredMap(prog) IN
  {k \in 1..Len(prog.rec) :
     LET ms == Range(prog.rec[k].members)
     IN ~\E p \in ms : \E i \in 1..Len(pm[p].rules) :
           (PBody(pm[p].rules[i].body)
            \cup SeqUnion(Len(pm[p].rules[i].head),
                          LAMBDA j : PE(pm[p].rules[i].head[j].e))) \cap ms = {}}

(* Functor applications are processed in order; a functor may be an earlier *)
(* made predicate.  A make is bad when its functor does not exist or an    *)
(* argument is not among the predicates the functor is built from.         *)
RECURSIVE BadMakesFrom(_, _, _)
BadMakesFrom(preds, makes, k) ==
  IF k > Len(makes) THEN {}
  ELSE LET mk == makes[k]
           pm == [n \in {preds[i].name : i \in 1..Len(preds)} |->
                    preds[CHOOSE i \in 1..Len(preds) : preds[i].name = n]]
           bad == \/ mk.functor \notin DOMAIN pm
                  \/ \E i \in 1..Len(mk.args) :
                       mk.args[i].k \notin (ReachAll(pm, {mk.functor}, {mk.functor}) \ {mk.functor})
       IN IF bad THEN {k} \cup BadMakesFrom(preds, makes, k + 1)
          ELSE BadMakesFrom(ApplyMake(preds, mk), makes, k + 1)
BadMakes(prog) == BadMakesFrom(prog.preds, prog.makes, 1)

BadAnnotations(prog) ==
  {prog.annpreds[i] : i \in 1..Len(prog.annpreds)}
  \ ({prog.preds[i].name : i \in 1..Len(prog.preds)}
     \cup {prog.makes[i].name : i \in 1..Len(prog.makes)})

(* Dependencies that matter for rejection: an assignment `v == <expr>` whose  *)
(* variable occurs nowhere else in the rule is dead code (it cannot change    *)
(* the rule's solutions), and the compiler is not required to look into it.   *)
VarsElsewhere(r, i) ==
  SeqUnion(Len(r.head), LAMBDA j : AVE(r.head[j].e))
  \cup UNION {AVC(r.body[j]) : j \in (1..Len(r.body)) \ {i}}
DeadConj(r, i) ==
  LET c == r.body[i] IN
  /\ c.k = "unify"
  /\ \/ c.l.k = "var" /\ c.l.name \notin (VarsElsewhere(r, i) \cup AVE(c.r))
     \/ c.r.k = "var" /\ c.r.name \notin (VarsElsewhere(r, i) \cup AVE(c.l))
LiveMentions(pred) ==
  SeqUnion(Len(pred.rules), LAMBDA i :
    LET r == pred.rules[i] IN
    SeqUnion(Len(r.head), LAMBDA j : PE(r.head[j].e))
    \cup UNION {PC(r.body[j]) : j \in {k \in 1..Len(r.body) : ~DeadConj(r, k)}})
RECURSIVE LiveReach(_, _, _)
LiveReach(pm, seen, frontier) ==
  IF frontier = {} THEN seen
  ELSE LET nxt == (UNION {LiveMentions(pm[q]) \cap DOMAIN pm : q \in frontier}) \ seen
       IN LiveReach(pm, seen \cup nxt, nxt)

(* The whole program is invalid (every query must be rejected) or only the  *)
(* predicates that depend on an invalid rule are.                           *)
ReservedVars(prog) == {prog.reserved[i] : i \in 1..Len(prog.reserved)}
GloballyInvalid(prog) == BadAnnotations(prog) # {} \/ BadMakes(prog) # {}
                         \/ ReservedVars(prog) # {}

MustReject(prog, p) ==
  LET pm == PredMap(prog)
      deps == LiveReach(pm, {p}, {p})
      recbad == UNION {Range(prog.rec[k].members) : k \in NoBaseComps(prog)}
  IN \/ GloballyInvalid(prog)
     \/ deps \cap InvalidPreds(prog) # {}
     \/ deps \cap recbad # {}
     \/ p \in FunctionOnly(prog)      \* cannot be evaluated by itself

(* Identifiers a diagnostic may use to identify the offence. *)
Offenders(prog, p) ==
  LET pm == PredMap(prog)
      ctx == [preds |-> pm, db |-> EmptyDb, dev |-> {}]
      deps == ReachAll(pm, {p}, {p})
      bad == (deps \cap InvalidPreds(prog)) \cup ({p} \cap FunctionOnly(prog))
      recbad == UNION {Range(prog.rec[k].members) : k \in NoBaseComps(prog)}
  IN bad
     \cup InvalidPreds(prog)     \* any invalid predicate of the program is an offender
     \cup UNION {UNION {UnboundVars(pm[q].rules[i], ctx) : i \in 1..Len(pm[q].rules)} : q \in bad}
     \cup BadAnnotations(prog)
     \cup ReservedVars(prog)
     \cup UNION {{prog.makes[k].name, prog.makes[k].functor}
                 \cup {prog.makes[k].args[i].k : i \in 1..Len(prog.makes[k].args)} : k \in BadMakes(prog)}
     \cup UNION {Range(prog.rec[k].members) : k \in NoBaseComps(prog)}
     \* a predicate that is empty because it reads a recursion without base may
     \* be named by the "proven to be empty" diagnostic
     \cup (IF deps \cap recbad # {}
          THEN {q \in DOMAIN pm : ReachAll(pm, {q}, {q}) \cap recbad # {}} ELSE {})

(* Bracket discipline of a statement text (code points), strings skipped.   *)
RECURSIVE Brackets(_, _, _)
Brackets(cs, stack, instr) ==
  IF cs = <<>> THEN stack = <<>> /\ ~instr
  ELSE LET ch == cs[1] IN
       IF instr THEN Brackets(Tail(cs), stack, ch # 34)
       ELSE IF ch = 34 THEN Brackets(Tail(cs), stack, TRUE)
       ELSE IF ch \in {40, 91, 123} THEN Brackets(Tail(cs), <<ch>> \o stack, FALSE)
       ELSE IF ch \in {41, 93, 125}
            THEN /\ stack # <<>>
                 /\ stack[1] = (CASE ch = 41 -> 40 [] ch = 93 -> 91 [] OTHER -> 123)
                 /\ Brackets(Tail(cs), Tail(stack), FALSE)
       ELSE Brackets(Tail(cs), stack, FALSE)
Balanced(cs) == Brackets(cs, <<>>, FALSE)
=============================================================================
