INIT Init
NEXT Next
