---- MODULE LStaticDebug ----
EXTENDS LStatic, Json, IOUtils, TLCExt
Cases == ndJsonDeserialize(IOEnv.TRACE_FILE)
P == [ExpandMakes(Cases[1].prog) EXCEPT !.makes = <<>>]
ASSUME PrintT(<<"invalid", InvalidPreds(P), "funonly", FunctionOnly(P), "nobase", NoBaseComps(P), "badmk", BadMakes(Cases[1].prog), "badann", BadAnnotations(P)>>)
PM == PredMap(P)
CTX == [preds |-> PM, db |-> EmptyDb, dev |-> {}]
R == PM["P12"].rules[1]
ASSUME PrintT(<<"inputs", InputFields(R), "scope", RuleScope(R), "sb", SafeBody(R.body, {"$", "u_fresh"}, RuleScope(R), CTX), "f3inline", PM["F3"].inline, "f3inputs", InputFields(PM["F3"].rules[1])>>)
VARIABLE x
Init == x = 0
Next == UNCHANGED x
====
