---------------------------- MODULE LStaticTrace ----------------------------
(***************************************************************************)
(* Validates recorded outcomes of the real pipeline on (possibly invalid)  *)
(* programs against LStatic (which programs must be rejected) and LSem     *)
(* (what the valid rest denotes).  Input ($TRACE_FILE, ndjson), per case:  *)
(*  [id, prog, dev, syntax: BOOLEAN, text: Seq(code point),                *)
(*   outcomes: Seq([p, status, cls, mentions: Seq(name), rows])]           *)
(* status: "ok" | "reject" (one of the four diagnostic exceptions) |       *)
(*         "internal" | "sqlerror".                                        *)
(***************************************************************************)
EXTENDS LStatic, Json, IOUtils, TLCExt

(* The file is read once (TLC does not cache IOEnv-dependent definitions). *)
Cases == TLCGet(2)
VARIABLE pos

Expanded(prog) == IF BadMakes(prog) = {} THEN [ExpandMakes(prog) EXCEPT !.makes = <<>>]
                  ELSE prog

RestrictProg(prog, keep) ==
  [prog EXCEPT !.preds = SelectSeq(prog.preds, LAMBDA q : q.name \in keep),
               !.rec = SelectSeq(prog.rec, LAMBDA c : Range(c.members) \subseteq keep),
               !.makes = <<>>]

Judge(c, o) ==
  LET prog == Expanded(c.prog)
      pm == PredMap(prog)
  IN
  IF c.syntax
  THEN IF ~Balanced(c.text)
       THEN [ok |-> o.status = "reject" /\ o.cls = "ParsingException",
             why |-> "unbalanced input must raise ParsingException"]
       ELSE [ok |-> TRUE, why |-> "balanced by chance: no demand"]
  ELSE IF o.status \in {"internal", "sqlerror"}
  THEN [ok |-> FALSE, why |-> "internal error instead of a diagnostic or a result"]
  ELSE IF o.p \notin DOMAIN pm
  THEN [ok |-> o.status = "reject", why |-> "unknown predicate"]
  ELSE IF MustReject(prog, o.p)
  THEN IF o.status # "reject"
       THEN [ok |-> FALSE, why |-> "invalid program was compiled"]
       ELSE [ok |-> Range(o.mentions) \cap Offenders(prog, o.p) # {},
             why |-> "diagnostic must identify the offending rule, variable or predicate"]
  ELSE IF o.status = "reject"
  THEN [ok |-> InvalidPreds(prog) # {} \/ NoBaseComps(prog) # {} \/ GloballyInvalid(prog),
        why |-> "a valid program was rejected"]
  ELSE IF ~c.judge_rows
  THEN [ok |-> TRUE, why |-> "valid and compiled (rows are judged by C01/C02)"]
  ELSE LET keep == ReachAll(pm, {o.p}, {o.p})
           den == DenDev(RestrictProg(prog, keep), Range(c.dev))
       IN [ok |-> BagMatch(den[o.p], o.rows), why |-> "rows differ from Den"]

Verdicts(c) ==
  [k \in 1..Len(c.outcomes) |->
     LET j == Judge(c, c.outcomes[k])
     IN [id |-> c.id, p |-> c.outcomes[k].p, ok |-> j.ok, exp |-> j.why,
         must |-> IF c.syntax THEN ~Balanced(c.text)
                  ELSE (c.outcomes[k].p \in DOMAIN PredMap(Expanded(c.prog))
                        /\ MustReject(Expanded(c.prog), c.outcomes[k].p))]]

Init == pos = 1 /\ TLCSet(1, 0) /\ TLCSet(2, ndJsonDeserialize(IOEnv.TRACE_FILE))
Next ==
  /\ pos <= Len(Cases)
  /\ LET vs == Verdicts(Cases[pos])
     IN /\ \A k \in 1..Len(vs) : PrintT(<<"V", ToJson(vs[k])>>)
        /\ IF \A k \in 1..Len(vs) : vs[k].ok THEN TRUE ELSE TLCSet(1, TLCGet(1) + 1)
  /\ pos' = pos + 1
Spec == Init /\ [][Next]_pos
Accepted == TLCGet(1) = 0 /\ TLCGet("stats").diameter - 1 = Len(Cases)
=============================================================================
