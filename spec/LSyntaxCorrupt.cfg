SPECIFICATION Spec
INVARIANT Changes
CHECK_DEADLOCK FALSE
