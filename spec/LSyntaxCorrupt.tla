---------------------------- MODULE LSyntaxCorrupt ----------------------------
(***************************************************************************)
(* Single-token corruption operators over the token sequences exported by  *)
(* LSyntaxGen ($CASE_FILE: ndjson [id, toks: Seq(<<kind, text, glue>>)]).  *)
(* Used by C06 to derive *syntactically broken* variants: a program        *)
(* rejected by one parser must be rejected by the other.                   *)
(*                                                                         *)
(*   DeleteToken(i)      drop token i                                      *)
(*   DuplicateToken(i)   repeat token i                                    *)
(*   SwapAdjacent(i)     exchange tokens i and i+1                         *)
(*   Unbalance...        insert a stray bracket before token i / replace a *)
(*                       bracket by one of another kind                    *)
(*   CutString(i)        string literal i loses its closing quote          *)
(*                                                                         *)
(* Every corruption of every case (BFS) or a random sample (-simulate) is  *)
(* exported as <<"CORRUPT", json [id, op, pos, toks]>>.                    *)
(***************************************************************************)
EXTENDS Naturals, Sequences, FiniteSets, TLC, Json, IOUtils

Cases == ndJsonDeserialize(IOEnv.CASE_FILE)

VARIABLES ci, op, pos, out
vars == <<ci, op, pos, out>>

Toks == Cases[ci].toks
Brackets == {"(", ")", "[", "]", "{", "}"}
IsBracket(t) == t[1] = "p" /\ t[2] \in Brackets
OtherKind(b) == CASE b = "(" -> "[" [] b = ")" -> "}" [] b = "[" -> "{"
                  [] b = "]" -> ")" [] b = "{" -> "(" [] b = "}" -> "]"

Delete(s, i)    == SubSeq(s, 1, i - 1) \o SubSeq(s, i + 1, Len(s))
Duplicate(s, i) == SubSeq(s, 1, i) \o SubSeq(s, i, Len(s))
Swap(s, i)      == SubSeq(s, 1, i - 1) \o <<s[i + 1], s[i]>>
                   \o SubSeq(s, i + 2, Len(s))
InsertBefore(s, i, t) == SubSeq(s, 1, i - 1) \o <<t>> \o SubSeq(s, i, Len(s))
Replace(s, i, t) == [s EXCEPT ![i] = t]

Emit(name, i, toks) ==
  /\ op = "" /\ op' = name /\ pos' = i /\ out' = toks
  /\ PrintT(<<"CORRUPT", ToJson([id |-> Cases[ci].id, op |-> name, pos |-> i,
                                 toks |-> toks])>>)
  /\ UNCHANGED ci

DeleteToken    == \E i \in 1..Len(Toks) : Emit("delete", i, Delete(Toks, i))
DuplicateToken == \E i \in 1..Len(Toks) : Emit("duplicate", i, Duplicate(Toks, i))
SwapAdjacent   == \E i \in 1..(Len(Toks) - 1) :
                    /\ Toks[i] # Toks[i + 1]
                    /\ Emit("swap", i, Swap(Toks, i))
UnbalanceInsert ==
  \E i \in 1..(Len(Toks) + 1), b \in {"(", ")"} :
     Emit("unbalance_insert" \o b, i, InsertBefore(Toks, i, <<"p", b, 0>>))
UnbalanceKind ==
  \E i \in 1..Len(Toks) :
     /\ IsBracket(Toks[i])
     /\ Emit("unbalance_kind", i,
             Replace(Toks, i, <<"p", OtherKind(Toks[i][2]), Toks[i][3]>>))
CutString ==
  \E i \in 1..Len(Toks) :
     /\ Toks[i][1] = "str"
     /\ Emit("cut_string", i, Replace(Toks, i, <<"strcut", Toks[i][2], Toks[i][3]>>))

Init == ci \in 1..Len(Cases) /\ op = "" /\ pos = 0 /\ out = <<>>
Next == \/ DeleteToken \/ DuplicateToken \/ SwapAdjacent \/ UnbalanceInsert
        \/ UnbalanceKind \/ CutString
Spec == Init /\ [][Next]_vars

(* A corruption changes the token sequence (never a no-op).                *)
Changes == op # "" => out # Toks
=============================================================================
