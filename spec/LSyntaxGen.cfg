SPECIFICATION Spec
CONSTANTS
  Fuel = 2
  MaxStmt = 1
  MaxTok = 60
  Imports = TRUE
INVARIANT TypeOK
INVARIANT RangesOK
INVARIANT ProdsOK
CHECK_DEADLOCK FALSE
