----------------------------- MODULE LSyntaxGen -----------------------------
(***************************************************************************)
(* Token-level grammar/builder state machine for the documented syntax of  *)
(* Logica (docs/syntax.md), plus the forms the properties C06/C15 name     *)
(* explicitly (.field, l[i], =>, the three combine syntaxes, order_by /    *)
(* limit denotations, annotations, imports).                               *)
(*                                                                         *)
(* A program is a sequence of tokens [k |-> kind, t |-> text-id, g |-> 0/1]*)
(*   kind  : "pred" "var" "num" "str" "kw" "p" (punctuation/operator)      *)
(*           "agg" (aggregating operator Op=) "field" "imp" (import path)  *)
(*           "bt" (backticked table)                                       *)
(*   t     : the token text, or for kind "str" the *form id*               *)
(*           ("dq" "..."; "sq" '...'; "tq" triple-quoted; "dq_sqlite" and  *)
(*           "dq_col0" are fixed annotation arguments); contents of        *)
(*           fillable string slots are chosen by LLex's fill enumerator.   *)
(*   g = 1 : the token is glued to its predecessor: docs/syntax.md says    *)
(*           "No space is allowed between predicate name and the opening   *)
(*           parenthesis"; .field / l[i] / Op{ and the import path are     *)
(*           not token boundaries of the documented grammar either.        *)
(*                                                                         *)
(* The machine is a pushdown generator: `stack` holds grammar symbols still*)
(* to be expanded; each step rewrites the top nonterminal by one           *)
(* *production* (the unit of coverage; AddFact / AddRule / AddLiteral ...  *)
(* are groups of productions) and emits the terminals that surface.        *)
(* `ranges` records, for every expression / proposition the derivation     *)
(* produced, its token range and whether redundant parentheses around it   *)
(* are licensed by the grammar without consulting operator precedence      *)
(* (docs/syntax.md has none): <<kind, from, to, wrappable>>.               *)
(*                                                                         *)
(* Bounds: every nonterminal has one *default* production (fact/rule,      *)
(* plain head, one positional argument, single-atom body, a leaf chosen by *)
(* rotation); every other production costs one unit of Fuel, and Fuel is   *)
(* given per statement.  So Fuel = k enumerates every program in which at  *)
(* most k non-default productions are combined per statement (every        *)
(* production alone for k = 1, every nesting / juxtaposition of two for    *)
(* k = 2).  MaxStmt statements, MaxTok tokens.  Exhaustive BFS enumerates  *)
(* *every* derivation within the bounds; -simulate samples larger ones.    *)
(* Names (variables, predicates, fields, numbers) are picked by position,  *)
(* so the enumeration ranges over shapes, not spellings.  Every finished    *)
(* program is printed as <<"CASE", ToJson([toks, ranges, prods])>>.        *)
(***************************************************************************)
EXTENDS Naturals, Sequences, FiniteSets, TLC, Json

CONSTANTS Fuel, MaxStmt, MaxTok,
          Imports       \* TRUE: import statements may be generated

VARIABLES toks, stack, opens, ranges, prods, fuel, nstmt, done

vars == <<toks, stack, opens, ranges, prods, fuel, nstmt, done>>

-----------------------------------------------------------------------------
(* Grammar symbols on the stack.                                           *)
T(k, t)  == <<"T", k, t, 0>>          \* terminal
G(k, t)  == <<"T", k, t, 1>>          \* terminal glued to its predecessor
N(n)     == <<"N", n, "">>            \* nonterminal
NM(n, m) == <<"N", n, m>>             \* nonterminal with a mode
B        == <<"B">>                   \* a range begins at the next token
E(k, w)  == <<"E", k, w>>             \* ... and ends at the last token

P(t)  == T("p", t)
GP(t) == G("p", t)
KW(t) == T("kw", t)

Wrap(kind, w, seq) == <<B>> \o seq \o <<E(kind, w)>>
ExprAny  == Wrap("expr", TRUE, <<NM("Expr", "any")>>)
Operand  == <<N("Operand")>>
PropW    == <<N("Prop")>>             \* Prop productions wrap themselves

(* Documented operators (docs/syntax.md `operator`) and the further infix  *)
(* operators every Logica text uses.                                       *)
DocOps   == {"+", "-", "/", ">", "<", "<=", ">=", "==", "->", "&&", "||"}
ExtraOps == {"*", "%", "++", "!="}
BinOps   == DocOps \cup ExtraOps
CmpOps   == {"<", "<=", ">", ">=", "!="}
UnOps    == {"-", "!"}
AggOps   == {"+=", "List=", "Max="}
AggFns   == {"Sum", "List"}

(* Deterministic rotations for names, so that exhaustive enumeration       *)
(* ranges over *shapes*, not over spellings.                               *)
Pick(seq, n) == seq[(n % Len(seq)) + 1]
VarAt(n)   == Pick(<<"x", "y", "z", "v1">>, n)
PredAt(n)  == Pick(<<"Q", "R", "T2", "Qq_1">>, n)
FnAt(n)    == Pick(<<"F", "Size", "ToString", "Greatest">>, n)
FieldAt(n) == Pick(<<"a", "b", "c_1">>, n)
IntAt(n)   == Pick(<<"1", "0", "25", "7">>, n)
DecAt(n)   == Pick(<<"1.5", "0.25">>, n)
HeadAt(n)  == Pick(<<"P", "U", "W3">>, n)

(* Identifiers that embed a keyword next to `_`, a letter or a digit: the   *)
(* parsers find keyword separators (distinct, limit, order_by, then, else, *)
(* in, combine ...) by text search with a word-boundary test, so these     *)
(* names are where the two word-boundary tests can differ.                 *)
KwVars   == {"on_then", "else_value", "y_in", "is_null", "thenx", "distinct2",
             "limits", "prelimit", "in_y", "combine_y", "if_y", "max_limit"}
KwPreds  == {"Count_distinct", "Rate_limit", "Order_by_x", "Distinct2",
             "Limits", "Prelimit", "ThenX", "Else_if", "Is_in", "Combine_all",
             "Couldbe_x", "In_list"}
KwFields == {"max_limit", "order_by_f", "in_f", "distinct_f", "then2"}
KwFns    == {"Count_distinct", "Is_in", "ThenX", "Limits"}
KwHeads  == {"Count_distinct", "Rate_limit", "Order_by_x", "Distinct2",
             "Else_if", "In_list"}

-----------------------------------------------------------------------------
(* Emitting the terminals / range markers that surfaced on the stack.      *)
RECURSIVE Norm(_)
Norm(st) ==
  IF st.stack = <<>> THEN st
  ELSE LET h == Head(st.stack) IN
    CASE h[1] = "T" ->
           Norm([st EXCEPT !.toks = Append(@, [k |-> h[2], t |-> h[3], g |-> h[4]]),
                           !.stack = Tail(@)])
      [] h[1] = "B" ->
           Norm([st EXCEPT !.opens = Append(@, Len(st.toks) + 1),
                           !.stack = Tail(@)])
      [] h[1] = "E" ->
           Norm([st EXCEPT
                  !.ranges = Append(@, <<h[2], st.opens[Len(st.opens)],
                                         Len(st.toks), h[3]>>),
                  !.opens = SubSeq(@, 1, Len(@) - 1),
                  !.stack = Tail(@)])
      [] OTHER -> st

Top(nt)       == stack # <<>> /\ Head(stack)[2] = nt
TopM(nt, ms)  == Top(nt) /\ Head(stack)[3] \in ms
Here          == Len(toks)

(* Rewrite the top nonterminal with production `name` (cost in fuel).      *)
Apply(name, cost, rhs) ==
  LET st == Norm([toks |-> toks, stack |-> rhs \o Tail(stack),
                  opens |-> opens, ranges |-> ranges])
  IN /\ fuel >= cost
     /\ Len(st.toks) <= MaxTok
     /\ toks' = st.toks /\ stack' = st.stack
     /\ opens' = st.opens /\ ranges' = st.ranges
     /\ prods' = prods \cup {name}
     /\ fuel' = fuel - cost
     /\ UNCHANGED <<nstmt, done>>

Composite == fuel > 0

-----------------------------------------------------------------------------
(* program ::= program_entry (';' program_entry)* [;]                      *)
(* (the optional trailing ';' is a layout variant, see LLex)               *)

Init ==
  /\ toks = <<>> /\ stack = <<N("Stmt")>> /\ opens = <<>> /\ ranges = <<>>
  /\ prods = {} /\ fuel = Fuel /\ nstmt = 1 /\ done = FALSE

MoreStatements ==
  /\ stack = <<>> /\ ~done /\ nstmt < MaxStmt
  /\ toks' = Append(toks, [k |-> "p", t |-> ";", g |-> 0])
  /\ stack' = <<N("Stmt")>>
  /\ fuel' = Fuel /\ nstmt' = nstmt + 1
  /\ prods' = prods \cup {"program_more"}
  /\ UNCHANGED <<opens, ranges, done>>

Finish ==
  /\ stack = <<>> /\ ~done
  /\ PrintT(<<"CASE", ToJson([toks |-> toks, ranges |-> ranges,
                              prods |-> prods])>>)
  /\ done' = TRUE
  /\ UNCHANGED <<toks, stack, opens, ranges, prods, fuel, nstmt>>

-----------------------------------------------------------------------------
(* program_entry ::= import | rule | functor_application                   *)
(* rule ::= rule_head [ ':-' rule_body ]                                   *)

Call(name, inner) == <<T("pred", name), GP("(")>> \o inner \o <<P(")")>>
Body == Wrap("prop", TRUE, <<N("Body")>>)

AddFact == Top("Stmt") /\ Apply("rule_fact", 0, <<N("Head")>>)
AddRule == Top("Stmt") /\ Apply("rule_with_body", 0,
                                <<N("Head"), P(":-")>> \o Body)

(* Two rules of one aggregating predicate (multi-body aggregation).        *)
AddTwinRules ==
  /\ Top("Stmt") /\ Composite
  /\ \E a \in AggOps :
       Apply("rule_multibody:" \o a, 1,
             Call("P", ExprAny) \o <<T("agg", a)>> \o ExprAny \o <<P(":-")>>
             \o Body \o <<P(";")>> \o
             Call("P", ExprAny) \o <<T("agg", a)>> \o ExprAny \o <<P(":-")>>
             \o Body)

(* import ::= 'import' dot_separated_path '.' logica_predicate             *)
(*            ['as' logica_predicate]                                      *)
(* Imported predicates must be used, so a rule using it follows.           *)
AddImport ==
  /\ Top("Stmt") /\ Imports /\ nstmt = 1
  /\ \/ Apply("import", 0,
              <<KW("import"), T("imp", "lib.m1.Imp1"), P(";"),
                T("pred", HeadAt(Here)), GP("("), T("var", "x"), P(")"),
                P(":-"), T("pred", "Imp1"), GP("("), T("var", "x"), P(")")>>)
     \/ Apply("import_as", 0,
              <<KW("import"), T("imp", "lib.m1.Imp1"), KW("as"),
                T("pred", "Alias"), P(";"),
                T("pred", HeadAt(Here)), GP("("), T("var", "x"), P(")"),
                P(":-"), T("pred", "Alias"), GP("("), T("var", "x"), P(")")>>)
     \/ Apply("import_two_files", 0,
              <<KW("import"), T("imp", "lib.m1.Imp1"), P(";"),
                KW("import"), T("imp", "lib.sub.m2.Imp2"), P(";"),
                T("pred", HeadAt(Here)), GP("("), T("var", "x"), P(")"),
                P(":-"), T("pred", "Imp1"), GP("("), T("var", "x"), P(")"),
                P(","), T("pred", "Imp2"), GP("("), T("var", "x"), P(")")>>)

(* functor_application ::= logica_predicate ':=' logica_predicate          *)
(*                         '(' functor_record_internal ')'                 *)
AddFunctor ==
  /\ Top("Stmt")
  /\ \/ Apply("functor_application1", 0,
              <<T("pred", "Fn1"), P(":=")>> \o
              Call("Gn", <<T("pred", "A"), P(":"), T("pred", "Bb")>>))
     \/ Apply("functor_application2", 0,
              <<T("pred", "Fn1"), P(":=")>> \o
              Call("Gn", <<T("pred", "A"), P(":"), T("pred", "Bb"), P(","),
                           T("pred", "C"), P(":"), T("pred", "D")>>))
     \/ Apply("functor_application0", 0,
              <<T("pred", "Fn1"), P(":=")>> \o Call("Gn", <<>>))

(* imperative_predicate ::= '@' [0-9a-zA-Z_]*   (annotations)              *)
Ann(name, inner) == <<T("pred", name), GP("(")>> \o inner \o <<P(")")>>
AddAnnotation ==
  /\ Top("Stmt")
  /\ \/ Apply("ann:@Engine", 0, Ann("@Engine", <<T("str", "dq_sqlite")>>))
     \/ Apply("ann:@Engine_named", 0,
              Ann("@Engine", <<T("str", "dq_sqlite"), P(","),
                               T("field", "type_checking"), P(":"),
                               T("kw", "true")>>))
     \/ Apply("ann:@Ground", 0, Ann("@Ground", <<T("pred", "P")>>))
     \/ Apply("ann:@With", 0, Ann("@With", <<T("pred", "P")>>))
     \/ Apply("ann:@NoInject", 0, Ann("@NoInject", <<T("pred", "P")>>))
     \/ Apply("ann:@OrderBy", 0,
              Ann("@OrderBy", <<T("pred", "P"), P(","), T("str", "dq_col0")>>))
     \/ Apply("ann:@Limit", 0,
              Ann("@Limit", <<T("pred", "P"), P(","), T("num", "2")>>))
     \/ Apply("ann:@Recursive", 0,
              Ann("@Recursive", <<T("pred", "P"), P(","), T("num", "3")>>))
     \/ Apply("ann:@Make", 0,
              Ann("@Make", <<T("pred", "Fn1"), P(","), T("pred", "Gn"), P(","),
                             P("{"), T("pred", "A"), P(":"), T("pred", "Bb"),
                             P("}")>>))

-----------------------------------------------------------------------------
(* rule_head ::= head_call [assignment] ['distinct']                       *)
(*   + denotations order_by(...) / limit(...)                              *)
(* head_call ::= logica_predicate '(' aggregating_record_internal ')'      *)

HCall == <<T("pred", HeadAt(Here)), GP("("), N("HeadArgs"), P(")")>>
OrderBy == <<KW("order_by"), GP("("), T("str", "dq_col0"), P(")")>>
Limit   == <<KW("limit"), GP("("), T("num", "2"), P(")")>>

HeadShape ==
  /\ Top("Head")
  /\ \/ Apply("head_plain", 0, HCall)
     \/ Apply("head_value", 1, HCall \o <<P("=")>> \o ExprAny)
     \/ \E a \in AggOps :
          Apply("head_agg_value:" \o a, 1, HCall \o <<T("agg", a)>> \o ExprAny)
     \/ Apply("head_distinct", 1, HCall \o <<KW("distinct")>>)
     \/ \E a \in AggOps :
          Apply("head_agg_field:" \o a, 1,
                <<T("pred", HeadAt(Here)), GP("(")>> \o ExprAny \o
                <<P(","), T("field", "s"), P("?"), T("agg", a)>> \o ExprAny
                \o <<P(")"), KW("distinct")>>)
     \/ Apply("head_value_distinct", 1,
              HCall \o <<P("=")>> \o ExprAny \o <<KW("distinct")>>)
     \/ \E p \in KwHeads :
          Apply("kwid_head:" \o p, 1,
                <<T("pred", p), GP("("), N("HeadArgs"), P(")")>>)
     \/ \E p \in {"Rate_limit", "Count_distinct", "Order_by_x", "Distinct2"} :
          Apply("kwid_head_denoted:" \o p, 1,
                <<T("pred", p), GP("("), N("HeadArgs"), P(")"),
                  KW("distinct")>> \o OrderBy \o Limit)
     \/ Apply("head_order_by", 1, HCall \o OrderBy)
     \/ Apply("head_limit", 1, HCall \o Limit)
     \/ Apply("head_order_by_limit", 1, HCall \o OrderBy \o Limit)
     \/ Apply("head_distinct_order_by_limit", 1,
              HCall \o <<KW("distinct")>> \o OrderBy \o Limit)

(* record_internal / aggregating_record_internal of the head               *)
HeadArgs ==
  /\ Top("HeadArgs")
  /\ \/ Apply("args_none", 1, <<>>)
     \/ Apply("args_pos1", 0, ExprAny)
     \/ Apply("args_pos2", 1, ExprAny \o <<P(",")>> \o ExprAny)
     \/ Apply("args_named", 1,
              <<T("field", FieldAt(Here)), P(":")>> \o ExprAny)
     \/ Apply("args_pos_named", 1,
              ExprAny \o <<P(","), T("field", FieldAt(Here)), P(":")>>
              \o ExprAny)
     \/ \E f \in KwFields :
          Apply("kwid_field:" \o f, 1, <<T("field", f), P(":")>> \o ExprAny)
     \/ Apply("kwid_field_short", 1, <<T("field", "max_limit"), P(":")>>)
     \/ Apply("args_short", 1, <<T("field", FieldAt(Here)), P(":")>>)
     \/ Apply("args_pos_short", 1,
              ExprAny \o <<P(","), T("field", FieldAt(Here)), P(":")>>)

-----------------------------------------------------------------------------
(* proposition ::= conjunction | disjunction | negation | call |           *)
(*   binary_operator_call | unary_operator_call | assign_combination |     *)
(*   inclusion | '(' proposition ')'                                       *)

BodyShape ==
  /\ Top("Body")
  /\ \/ Apply("body_single", 0, PropW)
     \/ Apply("conjunction2", 1, PropW \o <<P(",")>> \o PropW)
     \/ Composite /\ Apply("conjunction3", 1,
              PropW \o <<P(",")>> \o PropW \o <<P(",")>> \o PropW)
     \/ Composite /\ Apply("disjunction2", 1, PropW \o <<P("|")>> \o PropW)
     \/ Composite /\ Apply("conj_of_disjunction", 1,
              PropW \o <<P(","), P("(")>> \o
              Wrap("prop", TRUE, PropW \o <<P("|")>> \o PropW) \o <<P(")")>>)
     \/ Composite /\ Apply("disj_of_conjunction", 1,
              PropW \o <<P("|"), P("(")>> \o
              Wrap("prop", TRUE, PropW \o <<P(",")>> \o PropW) \o <<P(")")>>)

WP(seq) == Wrap("prop", TRUE, seq)
Atom(inner) == <<T("pred", PredAt(Here)), GP("(")>> \o inner \o <<P(")")>>

PropLeaf ==     \* the only proposition once the fuel is spent
  Top("Prop") /\ Apply("call_pos1", 0, WP(Atom(ExprAny)))

PropCall ==
  /\ Top("Prop") /\ Composite
  /\ \/ Apply("call_pos2", 1, WP(Atom(ExprAny \o <<P(",")>> \o ExprAny)))
     \/ \E p \in KwPreds :
          Apply("kwid_call:" \o p, 1,
                WP(<<T("pred", p), GP("(")>> \o ExprAny \o <<P(")")>>))
     \/ Apply("kwid_call_field", 1,
              WP(Atom(<<T("field", "order_by_f"), P(":")>> \o ExprAny \o
                      <<P(","), T("field", "max_limit"), P(":")>>)))
     \/ Apply("kwid_inclusion", 1,
              WP(<<T("var", "y_in"), KW("in"), T("var", "in_y")>>))
     \/ Apply("call_pos0", 1, WP(Atom(<<>>)))
     \/ Apply("call_named", 1,
              WP(Atom(<<T("field", FieldAt(Here)), P(":")>> \o ExprAny)))
     \/ Apply("call_short", 1,
              WP(Atom(<<T("field", FieldAt(Here)), P(":")>>)))
     \/ Apply("call_pos_named", 1,
              WP(Atom(ExprAny \o <<P(","), T("field", FieldAt(Here)), P(":")>>
                      \o ExprAny)))
     \/ Apply("call_rest_of", 1,
              WP(Atom(<<T("field", FieldAt(Here)), P(":")>> \o ExprAny \o
                      <<P(","), P(".."), T("var", "r")>>)))
     \/ Apply("call_only_rest_of", 1,
              WP(Atom(<<P(".."), T("var", "r")>>)))
     \/ Apply("call_backtick_table", 1,
              WP(<<T("bt", "`db.tab`"), GP("(")>> \o
                 <<T("field", FieldAt(Here)), P(":")>> \o ExprAny \o <<P(")")>>))
     \/ Apply("call_dotted_table", 1,
              WP(<<T("pred", "db.tab"), GP("(")>> \o
                 <<T("field", FieldAt(Here)), P(":")>> \o ExprAny \o <<P(")")>>))

PropInfix ==
  /\ Top("Prop") /\ Composite
  /\ \/ \E op \in CmpOps :
          Apply("prop_cmp:" \o op, 1, WP(Operand \o <<P(op)>> \o Operand))
     \/ Apply("prop_unify:==", 1, WP(Operand \o <<P("==")>> \o Operand))
     \/ Apply("prop_assign:=", 1, WP(Operand \o <<P("=")>> \o Operand))
     \/ Apply("prop_inclusion", 1, WP(Operand \o <<KW("in")>> \o Operand))
     \/ \E op \in {"&&", "||"} :
          Apply("prop_bool:" \o op, 1, WP(Operand \o <<P(op)>> \o Operand))

PropLogic ==
  /\ Top("Prop") /\ Composite
  /\ \/ Apply("negation_call", 1, WP(<<P("~")>> \o Atom(ExprAny)))
     \/ Apply("negation_paren", 1,
              WP(<<P("~"), P("(")>> \o
                 Wrap("prop", TRUE, PropW \o <<P(",")>> \o PropW) \o <<P(")")>>))
     \/ Apply("negation_of_negation", 1,
              WP(<<P("~"), P("(")>> \o WP(<<P("~")>> \o Atom(ExprAny))
                 \o <<P(")")>>))
     \/ Apply("prop_implication:=>", 1,
              WP(<<P("(")>> \o
                 Wrap("prop", TRUE, PropW \o <<P("=>")>> \o PropW) \o <<P(")")>>))
     \/ Apply("paren_disjunction", 1,
              WP(<<P("(")>> \o
                 Wrap("prop", TRUE, PropW \o <<P("|")>> \o PropW) \o <<P(")")>>))

(* assign_combination ::= variable aggregating_assignment |                *)
(*   (aggregating_operator '(' expression ':-' proposition ')')            *)
(* and the two other combine syntaxes as propositions x == ...             *)
PropCombine ==
  /\ Top("Prop") /\ Composite
  /\ \/ \E a \in AggOps :
          Apply("assign_combination_body:" \o a, 1,
                WP(<<T("var", VarAt(Here)), T("agg", a), P("(")>> \o ExprAny
                   \o <<P(":-")>> \o Body \o <<P(")")>>))
     \* The value extends to the end of the conjunct; docs/syntax.md does not
     \* say whether `y Max= 7 || 0` is `y Max= (7 || 0)` or `(y Max= 7) || 0`
     \* (the parsers read the latter and reject it), so parentheses around
     \* the whole value are not licensed as redundant here.
     \/ \E a \in AggOps :
          Apply("assign_combination:" \o a, 1,
                WP(<<T("var", VarAt(Here)), T("agg", a)>> \o
                   Wrap("expr", FALSE, <<NM("Expr", "any")>>)))
     \* "If combine has a body then it must be enclosed in parenthesis"; as
     \* the sole argument of a call both parsers reject it with the
     \* diagnostic "place it in auxiliary variable first", so the
     \* generator emits it in the advised position.
     \/ \E a \in AggOps :
          Apply("combine_body:" \o a, 1,
                WP(<<T("var", VarAt(Here)), P("=="), P("("), KW("combine"),
                     T("agg", a)>> \o ExprAny \o <<P(":-")>> \o Body
                   \o <<P(")")>>))

-----------------------------------------------------------------------------
(* expression ::= call | unary_operator_call | binary_operator_call |      *)
(*   combine | inclusion | implication | string_literal | number_literal | *)
(*   boolean_literal | null_literal | list | record | '(' expression ')'   *)
(*   + subscript e.field, index l[i], predicate literal                    *)
(* Modes: "any"; "prim" (no bare infix: safe as an operand); "bin" (bare   *)
(* infix only).                                                            *)

ExprLeafRot ==   \* the default leaf (free; the only choice once the fuel is spent)
  /\ TopM("Expr", {"any", "prim"})
  /\ IF Here % 2 = 0
       THEN Apply("variable", 0, <<T("var", VarAt(Here))>>)
       ELSE Apply("number_int", 0, <<T("num", IntAt(Here))>>)

ExprLeaf ==
  /\ TopM("Expr", {"any", "prim"}) /\ Composite
  /\ \/ \E v \in KwVars : Apply("kwid_var:" \o v, 1, <<T("var", v)>>)
     \/ Apply("number_decimal", 1, <<T("num", DecAt(Here))>>)
     \/ Apply("string_dq", 1, <<T("str", "dq")>>)
     \/ Apply("string_sq", 1, <<T("str", "sq")>>)
     \/ Apply("string_tq", 1, <<T("str", "tq")>>)
     \/ Apply("boolean_literal", 1,
              <<T("kw", IF Here % 2 = 0 THEN "true" ELSE "false")>>)
     \/ Apply("null_literal", 1, <<T("kw", "null")>>)
     \/ Apply("predicate_literal", 1, <<T("pred", PredAt(Here))>>)

FnCall(inner) == <<T("pred", FnAt(Here)), GP("(")>> \o inner \o <<P(")")>>

ExprPrimary ==
  /\ TopM("Expr", {"any", "prim"}) /\ Composite
  /\ \/ Apply("expr_call1", 1, FnCall(ExprAny))
     \/ Apply("expr_call2", 1, FnCall(ExprAny \o <<P(",")>> \o ExprAny))
     \/ Apply("expr_call0", 1, FnCall(<<>>))
     \/ Apply("expr_call_named", 1,
              FnCall(<<T("field", FieldAt(Here)), P(":")>> \o ExprAny))
     \/ \E p \in KwFns :
          Apply("kwid_fn:" \o p, 1,
                <<T("pred", p), GP("(")>> \o ExprAny \o <<P(")")>>)
     \/ Apply("kwid_implication", 1,
              <<P("("), KW("if"), T("var", "else_value"), KW("then"),
                T("var", "on_then"), KW("else"), T("var", "if_y"), P(")")>>)
     \/ Apply("kwid_combine", 1,
              <<P("("), KW("combine"), T("agg", "+="), T("var", "combine_y"),
                P(")")>>)
     \/ Apply("list0", 1, <<P("["), P("]")>>)
     \/ Apply("list1", 1, <<P("[")>> \o ExprAny \o <<P("]")>>)
     \/ Apply("list2", 1,
              <<P("[")>> \o ExprAny \o <<P(",")>> \o ExprAny \o <<P("]")>>)
     \/ Apply("record1", 1,
              <<P("{"), T("field", FieldAt(Here)), P(":")>> \o ExprAny
              \o <<P("}")>>)
     \/ Apply("record2", 1,
              <<P("{"), T("field", "a"), P(":")>> \o ExprAny \o
              <<P(","), T("field", "b"), P(":")>> \o ExprAny \o <<P("}")>>)
     \/ Apply("record0", 1, <<P("{"), P("}")>>)
     \/ Apply("subscript_field", 1,
              <<T("var", VarAt(Here)), GP("."), G("field", FieldAt(Here))>>)
     \/ Apply("subscript_field2", 1,
              <<T("var", VarAt(Here)), GP("."), G("field", "a"), GP("."),
                G("field", "b")>>)
     \/ Apply("index", 1,
              <<T("var", VarAt(Here)), GP("[")>> \o ExprAny \o <<P("]")>>)
     \/ Apply("implication", 1,
              <<P("("), KW("if")>> \o ExprAny \o <<KW("then")>> \o ExprAny
              \o <<KW("else")>> \o ExprAny \o <<P(")")>>)
     \/ Apply("implication_else_if", 1,
              <<P("("), KW("if")>> \o ExprAny \o <<KW("then")>> \o ExprAny
              \o <<KW("else if")>> \o ExprAny \o <<KW("then")>> \o ExprAny
              \o <<KW("else")>> \o ExprAny \o <<P(")")>>)
     \/ \E a \in AggOps :
          Apply("combine_nobody:" \o a, 1,
                <<P("("), KW("combine"), T("agg", a)>> \o ExprAny \o <<P(")")>>)
     \/ \E f \in AggFns :
          Apply("combine_braces:" \o f, 1,
                <<T("pred", f), GP("{")>> \o ExprAny \o <<P(":-")>> \o Body
                \o <<P("}")>>)
     \/ Apply("paren_expression", 1, <<P("(")>> \o ExprAny \o <<P(")")>>)

ExprInfix ==
  /\ TopM("Expr", {"any", "bin"}) /\ Composite
  /\ \/ \E op \in BinOps :
          Apply("binary:" \o op, 1, Operand \o <<P(op)>> \o Operand)
     \/ \E op \in UnOps :
          Apply("unary:" \o op, 1, <<P(op)>> \o Operand)
     \* an operator immediately followed by a call (x+F(y)): the shape in
     \* which the operator character touches a predicate name
     \/ \E op \in {"+", "-", "*", "/"} :
          Apply("binary_then_call:" \o op, 1,
                Operand \o <<P(op)>> \o
                Wrap("expr", TRUE, FnCall(ExprAny)))
     \/ Apply("inclusion", 1, Operand \o <<KW("in")>> \o Operand)

(* An operand of an infix construct: a primary (parentheses around it are  *)
(* redundant), an explicitly grouped expression, or a bare infix           *)
(* expression whose grouping is left to the parser (not wrappable).        *)
OperandShape ==
  /\ Top("Operand")
  /\ \/ Apply("operand_primary", 0,
              Wrap("expr", TRUE, <<NM("Expr", "prim")>>))
     \/ Composite /\ Apply("operand_bare_infix", 0,
              Wrap("expr", FALSE, <<NM("Expr", "bin")>>))

-----------------------------------------------------------------------------
Next ==
  \/ AddFact \/ AddRule \/ AddTwinRules \/ AddImport \/ AddFunctor
  \/ AddAnnotation
  \/ HeadShape \/ HeadArgs \/ BodyShape
  \/ PropLeaf \/ PropCall \/ PropInfix \/ PropLogic \/ PropCombine
  \/ ExprLeafRot \/ ExprLeaf \/ ExprPrimary \/ ExprInfix \/ OperandShape
  \/ MoreStatements \/ Finish

Spec == Init /\ [][Next]_vars

(* Every production the specification models (per-production coverage is   *)
(* measured against this list by the harness).                             *)
Modelled ==
  {"rule_fact", "rule_with_body", "program_more",
   "import", "import_as", "import_two_files",
   "functor_application0", "functor_application1", "functor_application2",
   "ann:@Engine", "ann:@Engine_named", "ann:@Ground", "ann:@With",
   "ann:@NoInject", "ann:@OrderBy", "ann:@Limit", "ann:@Recursive",
   "ann:@Make",
   "head_plain", "head_value", "head_distinct", "head_value_distinct",
   "head_order_by", "head_limit", "head_order_by_limit",
   "head_distinct_order_by_limit",
   "args_none", "args_pos1", "args_pos2", "args_named", "args_pos_named",
   "args_short", "args_pos_short",
   "body_single", "conjunction2", "conjunction3", "disjunction2",
   "conj_of_disjunction", "disj_of_conjunction",
   "call_pos0", "call_pos1", "call_pos2", "call_named", "call_short",
   "call_pos_named", "call_rest_of", "call_only_rest_of",
   "call_backtick_table", "call_dotted_table",
   "prop_unify:==", "prop_assign:=", "prop_inclusion",
   "prop_bool:&&", "prop_bool:||",
   "negation_call", "negation_paren", "negation_of_negation",
   "prop_implication:=>", "paren_disjunction",
   "variable", "number_int", "number_decimal", "string_dq", "string_sq",
   "string_tq", "boolean_literal", "null_literal", "predicate_literal",
   "expr_call0", "expr_call1", "expr_call2", "expr_call_named",
   "list0", "list1", "list2", "record0", "record1", "record2",
   "subscript_field", "subscript_field2", "index",
   "implication", "implication_else_if", "paren_expression",
   "inclusion", "operand_primary", "operand_bare_infix"}
  \cup {"rule_multibody:" \o a : a \in AggOps}
  \cup {"head_agg_value:" \o a : a \in AggOps}
  \cup {"head_agg_field:" \o a : a \in AggOps}
  \cup {"prop_cmp:" \o op : op \in CmpOps}
  \cup {"assign_combination_body:" \o a : a \in AggOps}
  \cup {"assign_combination:" \o a : a \in AggOps}
  \cup {"combine_body:" \o a : a \in AggOps}
  \cup {"combine_nobody:" \o a : a \in AggOps}
  \cup {"combine_braces:" \o f : f \in AggFns}
  \cup {"binary:" \o op : op \in BinOps}
  \cup {"unary:" \o op : op \in UnOps}
  \cup {"binary_then_call:" \o op : op \in {"+", "-", "*", "/"}}
  \cup {"kwid_var:" \o v : v \in KwVars}
  \cup {"kwid_call:" \o p : p \in KwPreds}
  \cup {"kwid_fn:" \o p : p \in KwFns}
  \cup {"kwid_head:" \o p : p \in KwHeads}
  \cup {"kwid_head_denoted:" \o p :
          p \in {"Rate_limit", "Count_distinct", "Order_by_x", "Distinct2"}}
  \cup {"kwid_field:" \o f : f \in KwFields}
  \cup {"kwid_field_short", "kwid_call_field", "kwid_inclusion",
        "kwid_implication", "kwid_combine"}

ASSUME PrintT(<<"MODELLED", ToJson(Modelled)>>)

(* Sanity invariants of the builder itself.                                *)
TypeOK ==
  /\ fuel \in 0..Fuel
  /\ nstmt \in 1..MaxStmt
  /\ \A i \in 1..Len(toks) : toks[i].g \in {0, 1}
  /\ Len(toks) > 0 => toks[1].g = 0
RangesOK ==
  \A i \in 1..Len(ranges) :
     /\ 1 <= ranges[i][2] /\ ranges[i][2] <= ranges[i][3]
     /\ ranges[i][3] <= Len(toks)
ProdsOK == prods \subseteq Modelled
=============================================================================
