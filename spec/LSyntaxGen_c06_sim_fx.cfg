SPECIFICATION Spec
CONSTANTS
  Fuel = 4
  MaxStmt = 3
  MaxTok = 60
  Imports = TRUE
INVARIANT TypeOK
INVARIANT RangesOK
INVARIANT ProdsOK
CHECK_DEADLOCK FALSE
