SPECIFICATION Spec
CONSTANTS
  Fuel = 1
  MaxStmt = 1
  MaxTok = 60
  Imports = FALSE
INVARIANT TypeOK
INVARIANT RangesOK
INVARIANT ProdsOK
CHECK_DEADLOCK FALSE
