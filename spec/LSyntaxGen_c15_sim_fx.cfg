SPECIFICATION Spec
CONSTANTS
  Fuel = 4
  MaxStmt = 2
  MaxTok = 60
  Imports = FALSE
INVARIANT TypeOK
INVARIANT RangesOK
INVARIANT ProdsOK
CHECK_DEADLOCK FALSE
