------------------------------- MODULE LTyping -------------------------------
(***************************************************************************)
(* The typing discipline of Logica programs (property C05), over the IR of *)
(* LSem.                                                                   *)
(*                                                                         *)
(* Ground types:  Num | Str | Bool | [t] (t not a list) | {f: t, ...}      *)
(*   <<"Num">> <<"Str">> <<"Bool">> <<"L", t>> <<"R", fs>>                 *)
(* where fs is a function from field names to types that always carries    *)
(* the sentinel field "$" (so that its domain is a set of strings).         *)
(*                                                                         *)
(* Partial types (what is known of a type while constraints are being      *)
(* propagated) additionally have                                           *)
(*   <<"Any">>      nothing known                                          *)
(*   <<"Sing">>     not a list    (element of a list: lists do not nest)   *)
(*   <<"Seq">>      Str or a list (operand of ++)                          *)
(*   <<"O", fs>>    a record having at least the fields fs (`r.f` opens;   *)
(*                  a record literal is closed: exactly its fields)        *)
(*   <<"Bad">>      clash                                                  *)
(*                                                                         *)
(* A program is well typed iff every predicate column and every variable   *)
(* of every rule can be given one type such that every rule types:         *)
(*   literals     1 : Num, "a" : Str, true : Bool                          *)
(*   + - * (and unary -)      Num x Num -> Num                             *)
(*   ++                       s x s -> s,  s Str or a list                 *)
(*   == != < <= > >=          t x t -> Bool                                *)
(*   && ||                    Bool x Bool -> Bool;   ! : Bool -> Bool      *)
(*   e is null                t -> Bool                                    *)
(*   [e1, ..., en]            all ei : t, t not a list; result [t]         *)
(*   {f1: e1, ...}            closed record {f1: t1, ...}                  *)
(*   e.f                      e : record with a field f : t; result t      *)
(*   if c then a else b       c : Bool, a : t, b : t; result t             *)
(*   Size(l)                  [t] -> Num                                   *)
(*   Element(l, i)            [t] x Num -> t                               *)
(*   x in l                   x : t, l : [t]                               *)
(*   a -> v                   {arg: ta, value: tv}                         *)
(*   Sum (+=) : Num -> Num;  Min, Max : t -> t;  Count : t -> Num;         *)
(*   List, Set : t -> [t] (t not a list);  ArgMin, ArgMax :                *)
(*   {arg: ta, value: tv} -> ta  (ta not a list: on SQLite they are built  *)
(*   from ArgMinK / ArgMaxK, which collect the arguments in a list)        *)
(*   a predicate-level aggregation `f? Op= e` folds one bag over all the    *)
(*   rules of the predicate: e has one type in all of them                 *)
(*   P(f: e, ...)             e : type of column f of P; P must have f     *)
(*   F(f: e, ...) as a value  ... and the type of F's logica_value         *)
(*   l == r (conjunct)        l : t, r : t                                 *)
(* These restate type_inference/research/types_of_builtins.py for the      *)
(* operators of the fragment.  Variables first met inside an aggregating   *)
(* expression or a negation are local to it (LSem's scoping).              *)
(*                                                                         *)
(* WellTyped / Signature are computed by constraint propagation: every     *)
(* rule is swept (expected types pushed down, found types pulled up,       *)
(* variables and columns only ever refined by Meet) until nothing changes;  *)
(* a Meet that fails is a clash.  A rule with `|` groups is typed as its   *)
(* disjunctive normal form (one set of variables per choice of             *)
(* alternatives).                                                          *)
(*                                                                         *)
(* Deviations (dev) exist only to name the cause of a disagreement         *)
(* precisely; the property is dev = {}:                                    *)
(*   neq_untyped           `!=` puts no constraint on its operands and     *)
(*                         says nothing about its result                   *)
(*   if_cond_untyped       the condition of if-then-else may have any type *)
(*   closed_records_widen  two closed records one of which has all the     *)
(*                         fields of the other meet in the wider one       *)
(*   record_field_clash_hidden  records that disagree on the type of a     *)
(*                         common field still meet (the field unknown)     *)
(***************************************************************************)
EXTENDS LSem

TAny  == <<"Any">>
TSing == <<"Sing">>
TSeq  == <<"Seq">>
TNum  == <<"Num">>
TStr  == <<"Str">>
TBool == <<"Bool">>
TBad  == <<"Bad">>
THid  == <<"Hid">>     \* deviation record_field_clash_hidden only: a clash that stays unreported
TL(t) == <<"L", t>>
TR(fs) == <<"R", fs>>
TO(fs) == <<"O", fs>>
NoFields == ("$" :> TNum)
Tg(t) == t[1]

TypingDeviations == {"neq_untyped", "if_cond_untyped", "closed_records_widen",
                     "record_field_clash_hidden"}

IsRec(t) == Tg(t) \in {"R", "O"}
ElemOf(t) == IF Tg(t) = "L" THEN t[2] ELSE TAny
FieldOf(t, f) == IF IsRec(t) /\ f \in DOMAIN t[2] THEN t[2][f] ELSE TAny
Fields(t) == (DOMAIN t[2]) \ {"$"}

RECURSIVE IsGround(_)
IsGround(t) ==
  CASE Tg(t) \in {"Num", "Str", "Bool"} -> TRUE
    [] Tg(t) = "L" -> Tg(t[2]) # "L" /\ IsGround(t[2])
    [] Tg(t) = "R" -> \A f \in Fields(t) : IsGround(t[2][f])
    [] OTHER -> FALSE

(* A type the program has settled: a ground type, or a record of which the  *)
(* program only ever addresses some fields - an open record {f: t, ...}     *)
(* with settled t (the parameter of `Price(r) = r.amount * 2`).  Callers    *)
(* may pass any record that has those fields; what they pass never changes  *)
(* the callee's own column type.                                            *)
RECURSIVE Settled(_)
Settled(t) ==
  CASE Tg(t) \in {"Num", "Str", "Bool"} -> TRUE
    [] Tg(t) = "L" -> Tg(t[2]) # "L" /\ Settled(t[2])
    [] Tg(t) = "R" -> \A f \in Fields(t) : Settled(t[2][f])
    [] Tg(t) = "O" -> Fields(t) # {} /\ \A f \in Fields(t) : Settled(t[2][f])
    [] OTHER -> FALSE

(* What `ShowPredicateTypes` can print of a type: open and closed records   *)
(* are written alike.                                                       *)
RECURSIVE Printed(_)
Printed(t) ==
  CASE Tg(t) = "L" -> TL(Printed(t[2]))
    [] Tg(t) \in {"R", "O"} -> TR([f \in DOMAIN t[2] |-> Printed(t[2][f])])
    [] OTHER -> t

(* Meet: the most general type that is both a and b; Bad if there is none. *)
(* dv: deviations in force (classification only; the property is dv = {}):  *)
(*   closed_records_widen     two closed records one of which has all the   *)
(*                            fields of the other meet in the wider one;    *)
(*   record_field_clash_hidden  two records that disagree on the type of a  *)
(*                            common field still meet (that field: Hid,     *)
(*                            which absorbs everything and is never settled) *)
RECURSIVE MeetD(_, _, _)
MeetRec(a, b, dv) ==
  LET wide == "closed_records_widen" \in dv
      da == DOMAIN a[2]
      db == DOMAIN b[2]
      shape == IF Tg(a) = "R" /\ Tg(b) = "R"
               THEN (IF da = db \/ (wide /\ (da \subseteq db \/ db \subseteq da)) THEN "R" ELSE "Bad")
               ELSE IF Tg(a) = "R" THEN (IF db \subseteq da THEN "R" ELSE "Bad")
               ELSE IF Tg(b) = "R" THEN (IF da \subseteq db THEN "R" ELSE "Bad")
               ELSE "O"
      fs0 == [f \in da \cup db |->
                IF f \in da /\ f \in db THEN MeetD(a[2][f], b[2][f], dv)
                ELSE IF f \in da THEN a[2][f] ELSE b[2][f]]
      fs == IF "record_field_clash_hidden" \in dv
            THEN [f \in DOMAIN fs0 |-> IF Tg(fs0[f]) = "Bad" THEN THid ELSE fs0[f]]
            ELSE fs0
  IN IF shape = "Bad" \/ \E f \in DOMAIN fs : Tg(fs[f]) = "Bad" THEN TBad
     ELSE <<shape, fs>>

MeetD(a, b, dv) ==
  IF a = b THEN a
  ELSE IF Tg(a) = "Hid" \/ Tg(b) = "Hid" THEN THid
  ELSE IF Tg(a) = "Bad" \/ Tg(b) = "Bad" THEN TBad
  ELSE IF Tg(a) = "Any" THEN b
  ELSE IF Tg(b) = "Any" THEN a
  ELSE IF Tg(a) = "Sing" THEN (CASE Tg(b) = "L" -> TBad [] Tg(b) = "Seq" -> TStr [] OTHER -> b)
  ELSE IF Tg(b) = "Sing" THEN (CASE Tg(a) = "L" -> TBad [] Tg(a) = "Seq" -> TStr [] OTHER -> a)
  ELSE IF Tg(a) = "Seq" THEN (IF Tg(b) \in {"Str", "L"} THEN b ELSE TBad)
  ELSE IF Tg(b) = "Seq" THEN (IF Tg(a) \in {"Str", "L"} THEN a ELSE TBad)
  ELSE IF Tg(a) = "L" /\ Tg(b) = "L"
  THEN LET e == MeetD(MeetD(a[2], b[2], dv), TSing, dv) IN IF Tg(e) = "Bad" THEN TBad ELSE TL(e)
  ELSE IF IsRec(a) /\ IsRec(b) THEN MeetRec(a, b, dv)
  ELSE TBad

Meet(a, b) == MeetD(a, b, {})
MeetC(ctx, a, b) == MeetD(a, b, ctx.dev)

RECURSIVE LitType(_)
LitType(v) ==
  CASE v[1] = "n" -> TNum
    [] v[1] = "s" -> TStr
    [] v[1] = "b" -> TBool
    [] v[1] = "l" ->
         LET RECURSIVE Go(_, _)
             Go(i, acc) == IF i > Len(v[2]) THEN acc ELSE Go(i + 1, Meet(acc, LitType(v[2][i])))
             e == Go(1, TSing)
         IN IF Tg(e) = "Bad" THEN TBad ELSE TL(e)
    [] v[1] = "r" ->
         LET fs == [f \in {v[2][i][1] : i \in 1..Len(v[2])} |->
                      LitType(v[2][CHOOSE i \in 1..Len(v[2]) : v[2][i][1] = f][2])]
         IN IF v[2] = <<>> THEN TR(NoFields)
            ELSE IF \E f \in DOMAIN fs : Tg(fs[f]) = "Bad" THEN TBad ELSE TR(fs @@ NoFields)
    [] OTHER -> TAny          \* null: no evidence

-----------------------------------------------------------------------------
(* Propagation state: env maps a variable key to its partial type, bad is  *)
(* the set of clashes met.  A variable key is the variable's name prefixed *)
(* by the path of the aggregating expression / negation it is local to.    *)
(* out: a construct the typing rules above do not cover was met (the program *)
(* is outside the fragment: no verdict).                                     *)
St0 == [env |-> ("$" :> TAny), bad |-> {}, out |-> FALSE]
Outside(st) == [st EXCEPT !.out = TRUE]
Res(t, st) == [t |-> t, st |-> st]
Clash(st, why) == [st EXCEPT !.bad = @ \cup {why}]
FitC(ctx, t, want, st, why) ==
  LET m == MeetC(ctx, t, want)
  IN IF Tg(m) = "Bad" THEN Res(IF Tg(t) = "Bad" THEN want ELSE t, Clash(st, why)) ELSE Res(m, st)

EnvOf(st, key) == IF key \in DOMAIN st.env THEN st.env[key] ELSE TAny

Sub(path, i) == path \o "." \o ToString(i)
Enter(ren, path, vars) ==
  IF vars \subseteq DOMAIN ren THEN ren
  ELSE [x \in (vars \ DOMAIN ren) |-> path \o "/" \o x] @@ ren

CmpOps == {"==", "!=", "<", "<=", ">", ">="}
AggOps == {"Sum", "Min", "Max", "Count", "List", "Set", "ArgMin", "ArgMax"}

RECURSIVE Chk(_, _, _, _, _, _), ChkItems(_, _, _, _, _, _, _), ChkSame(_, _, _, _, _, _, _),
          ChkCall(_, _, _, _, _, _, _), ChkAgg(_, _, _, _, _, _, _, _), ChkBody(_, _, _, _, _),
          ChkConj(_, _, _, _, _)

(* items all of one type et (threaded): returns the refined et *)
ChkItems(items, i, et, ren, path, ctx, st) ==
  IF i > Len(items) THEN Res(et, st)
  ELSE LET r == Chk(items[i], et, ren, Sub(path, i), ctx, st)
       IN ChkItems(items, i + 1, r.t, ren, path, ctx, r.st)

(* two expressions of one type: found types flow both ways *)
ChkSame(a, b, want, ren, path, ctx, st) ==
  LET ra == Chk(a, want, ren, Sub(path, 1), ctx, st)
      rb == Chk(b, ra.t, ren, Sub(path, 2), ctx, ra.st)
  IN IF rb.t = ra.t THEN rb
     ELSE LET ra2 == Chk(a, rb.t, ren, Sub(path, 1), ctx, rb.st) IN Res(ra2.t, ra2.st)

(* arguments of a predicate call against the predicate's columns *)
ChkCall(p, args, i, ren, path, ctx, st) ==
  IF i > Len(args) THEN st
  ELSE IF p \notin DOMAIN ctx.sig
  THEN Clash(st, "unknown predicate " \o p)
  ELSE IF args[i].f \notin DOMAIN ctx.sig[p]
  THEN ChkCall(p, args, i + 1, ren, path, ctx,
               Clash(st, "predicate " \o p \o " has no argument " \o args[i].f))
  ELSE LET r == Chk(args[i].e, ctx.sig[p][args[i].f], ren, Sub(path, i), ctx, st)
       IN ChkCall(p, args, i + 1, ren, path, ctx, r.st)

(* aggregate `op` applied to expression e (the body, if any, was handled) *)
(* aw: what is already known of the type of the aggregated argument (for a   *)
(* predicate-level aggregation the argument is a column of its own: all      *)
(* rules of the predicate aggregate one bag, so they give it one type).      *)
(* Returns t (type of the result), a (type of the argument), st.             *)
ChkAgg(op, e, want, aw, ren, path, ctx, st) ==
  LET Arg(opwant) == LET m == MeetC(ctx, opwant, aw) IN IF Tg(m) = "Bad" THEN opwant ELSE m
      S0(opwant) == IF Tg(MeetC(ctx, opwant, aw)) = "Bad"
                    THEN Clash(st, "aggregated argument has another type in another rule") ELSE st
      Out(r, a) == [t |-> r.t, a |-> a, st |-> r.st]
  IN
  CASE op = "Sum" ->
         LET r == Chk(e, Arg(TNum), ren, path, ctx, S0(TNum))
         IN Out(FitC(ctx, TNum, want, r.st, "Sum gives Num"), r.t)
    [] op = "Count" ->
         LET r == Chk(e, Arg(TAny), ren, path, ctx, S0(TAny))
         IN Out(FitC(ctx, TNum, want, r.st, "Count gives Num"), r.t)
    [] op \in {"Min", "Max"} ->
         LET r == Chk(e, Arg(want), ren, path, ctx, S0(want)) IN Out(r, r.t)
    [] op \in {"List", "Set"} ->
         LET w == MeetC(ctx, want, TL(TSing))
         IN IF Tg(w) = "Bad"
            THEN LET r == Chk(e, Arg(TSing), ren, path, ctx, S0(TSing))
                 IN Out(Res(want, Clash(r.st, op \o " gives a list")), r.t)
            ELSE LET ew == MeetC(ctx, ElemOf(w), TSing)
                     r == Chk(e, Arg(ew), ren, path, ctx, S0(ew))
                 IN Out(Res(TL(r.t), r.st), r.t)
    [] op \in {"ArgMin", "ArgMax"} ->
         \* on the SQLite engine ArgMin / ArgMax are built from ArgMinK / ArgMaxK,
         \* which collect the arguments in a list: the argument is not a list
         LET w == MeetC(ctx, want, TSing)
             rw == TR(("arg" :> (IF Tg(w) = "Bad" THEN TSing ELSE w)) @@ ("value" :> TAny) @@ NoFields)
             r == Chk(e, Arg(rw), ren, path, ctx, S0(rw))
         IN Out(FitC(ctx, FieldOf(r.t, "arg"), want, r.st, op \o " gives its argument, which is not a list"), r.t)
    [] OTHER -> [t |-> want, a |-> TAny, st |-> Outside(st)]

Chk(e, want, ren, path, ctx, st) ==
  CASE e.k = "var" ->
         LET key == ren[e.name]
             cur == EnvOf(st, key)
             m == MeetC(ctx, cur, want)
         IN IF Tg(m) = "Bad" THEN Res(cur, Clash(st, "variable " \o e.name))
            ELSE IF m = cur THEN Res(m, st)
            ELSE Res(m, [st EXCEPT !.env = (key :> m) @@ @])
    [] e.k = "lit" -> FitC(ctx, LitType(e.v), want, st, "literal")
    [] e.k = "list" ->
         LET w == MeetC(ctx, want, TL(TSing))
         IN IF Tg(w) = "Bad"
            THEN Res(want, Clash(ChkItems(e.items, 1, TSing, ren, path, ctx, st).st, "list literal"))
            ELSE LET r1 == ChkItems(e.items, 1, ElemOf(w), ren, path, ctx, st)
                     r2 == IF r1.t = ElemOf(w) THEN r1
                           ELSE ChkItems(e.items, 1, r1.t, ren, path, ctx, r1.st)
                 IN Res(TL(r2.t), r2.st)
    [] e.k = "rec" ->
         LET w == MeetC(ctx, want, TO(NoFields))
             ww == IF Tg(w) = "Bad" THEN TO(NoFields) ELSE w
             RECURSIVE Go(_, _, _)
             Go(i, acc, s) ==
               IF i > Len(e.fields) THEN Res(TR(acc), s)
               ELSE LET r == Chk(e.fields[i].e, FieldOf(ww, e.fields[i].f), ren, Sub(path, i), ctx, s)
                    IN Go(i + 1, (e.fields[i].f :> r.t) @@ acc, r.st)
             lit == Go(1, NoFields, st)
         IN FitC(ctx, lit.t, want, lit.st, "record literal")
    [] e.k = "sub" ->
         LET r == Chk(e.e, TO((e.f :> want) @@ NoFields), ren, Sub(path, 1), ctx, st)
         IN Res(MeetC(ctx, FieldOf(r.t, e.f), want), r.st)
    [] e.k = "if" ->
         LET c == Chk(e.c, IF "if_cond_untyped" \in ctx.dev THEN TAny ELSE TBool,
                      ren, Sub(path, 1), ctx, st)
         IN ChkSame(e.t, e.f, want, ren, Sub(path, 2), ctx, c.st)
    [] e.k = "pcall" ->
         LET s1 == ChkCall(e.p, e.args, 1, ren, path, ctx, st)
         IN IF e.p \notin DOMAIN ctx.sig THEN Res(want, s1)
            ELSE IF "logica_value" \notin DOMAIN ctx.sig[e.p]
            THEN Res(want, Clash(s1, "predicate " \o e.p \o " is not a function"))
            ELSE FitC(ctx, ctx.sig[e.p]["logica_value"], want, s1, "value of " \o e.p)
    [] e.k = "agg" ->
         LET ren2 == Enter(ren, path, DVE(e.e) \cup DVBody(e.body))
             s1 == ChkBody(e.body, ren2, Sub(path, 1), ctx, st)
             r == ChkAgg(e.op, e.e, want, TAny, ren2, Sub(path, 2), ctx, s1)
         IN Res(r.t, r.st)
    [] e.k = "op" ->
         (LET op == e.op a == e.args IN
         CASE op \in {"+", "*", "-"} /\ Len(a) = 2 ->
                LET r1 == Chk(a[1], TNum, ren, Sub(path, 1), ctx, st)
                    r2 == Chk(a[2], TNum, ren, Sub(path, 2), ctx, r1.st)
                IN FitC(ctx, TNum, want, r2.st, op \o " gives Num")
           [] op = "-" /\ Len(a) = 1 ->
                LET r1 == Chk(a[1], TNum, ren, Sub(path, 1), ctx, st)
                IN FitC(ctx, TNum, want, r1.st, "- gives Num")
           [] op = "++" ->
                LET w == MeetC(ctx, want, TSeq)
                IN IF Tg(w) = "Bad"
                   THEN Res(want, Clash(ChkSame(a[1], a[2], TSeq, ren, path, ctx, st).st, "++ gives Str or a list"))
                   ELSE ChkSame(a[1], a[2], w, ren, path, ctx, st)
           [] op = "!=" /\ "neq_untyped" \in ctx.dev ->
                LET r1 == Chk(a[1], TAny, ren, Sub(path, 1), ctx, st)
                    r2 == Chk(a[2], TAny, ren, Sub(path, 2), ctx, r1.st)
                IN Res(want, r2.st)
           [] op \in CmpOps ->
                LET r == ChkSame(a[1], a[2], TAny, ren, path, ctx, st)
                IN FitC(ctx, TBool, want, r.st, op \o " gives Bool")
           [] op \in {"&&", "||"} ->
                LET r1 == Chk(a[1], TBool, ren, Sub(path, 1), ctx, st)
                    r2 == Chk(a[2], TBool, ren, Sub(path, 2), ctx, r1.st)
                IN FitC(ctx, TBool, want, r2.st, op \o " gives Bool")
           [] op = "!" ->
                LET r1 == Chk(a[1], TBool, ren, Sub(path, 1), ctx, st)
                IN FitC(ctx, TBool, want, r1.st, "! gives Bool")
           [] op = "isnull" ->
                LET r1 == Chk(a[1], TAny, ren, Sub(path, 1), ctx, st)
                IN FitC(ctx, TBool, want, r1.st, "is null gives Bool")
           [] op = "Size" ->
                LET r1 == Chk(a[1], TL(TSing), ren, Sub(path, 1), ctx, st)
                IN FitC(ctx, TNum, want, r1.st, "Size gives Num")
           [] op = "Element" ->
                LET w == MeetC(ctx, want, TSing)
                    r1 == Chk(a[1], TL(IF Tg(w) = "Bad" THEN TSing ELSE w), ren, Sub(path, 1), ctx, st)
                    r2 == Chk(a[2], TNum, ren, Sub(path, 2), ctx, r1.st)
                IN FitC(ctx, ElemOf(r1.t), want, r2.st, "Element gives an element")
           [] op = "->" ->
                LET w == MeetC(ctx, want, TO(NoFields))
                    ww == IF Tg(w) = "Bad" THEN TO(NoFields) ELSE w
                    r1 == Chk(a[1], FieldOf(ww, "arg"), ren, Sub(path, 1), ctx, st)
                    r2 == Chk(a[2], FieldOf(ww, "value"), ren, Sub(path, 2), ctx, r1.st)
                IN FitC(ctx, TR(("arg" :> r1.t) @@ ("value" :> r2.t) @@ NoFields), want, r2.st, "-> gives a record")
           [] OTHER -> Res(want, Outside(st)))
    [] OTHER -> Res(want, Outside(st))

ChkConj(c, ren, path, ctx, st) ==
  CASE c.k = "atom" -> ChkCall(c.p, c.args, 1, ren, path, ctx, st)
    [] c.k = "cmp" -> Chk(c.e, TBool, ren, path, ctx, st).st
    [] c.k = "unify" -> ChkSame(c.l, c.r, TAny, ren, path, ctx, st).st
    [] c.k = "inc" ->
         LET rl == Chk(c.r, TL(TSing), ren, Sub(path, 2), ctx, st)
             rx == Chk(c.l, MeetC(ctx, ElemOf(rl.t), TSing), ren, Sub(path, 1), ctx, rl.st)
         IN IF rx.t = ElemOf(rl.t) THEN rx.st
            ELSE Chk(c.r, TL(rx.t), ren, Sub(path, 2), ctx, rx.st).st
    [] c.k = "neg" ->
         ChkBody(c.body, Enter(ren, path, DVBody(c.body)), path, ctx, st)
    [] c.k = "or" ->
         (LET RECURSIVE Go(_, _)
              Go(i, s) == IF i > Len(c.alts) THEN s
                          ELSE Go(i + 1, ChkBody(c.alts[i], ren, Sub(path, i), ctx, s))
          IN Go(1, st))
    [] OTHER -> Outside(st)

ChkBody(body, ren, path, ctx, st) ==
  LET RECURSIVE Go(_, _)
      Go(i, s) == IF i > Len(body) THEN s
                  ELSE Go(i + 1, ChkConj(body[i], ren, Sub(path, i), ctx, s))
  IN Go(1, st)

-----------------------------------------------------------------------------
(* One rule of predicate p under the column types ctx.sig.                  *)
(* The columns of a rule head: its fields and, for every aggregated field f, *)
(* the column of the aggregated argument, named f$arg (never printed).       *)
ArgCol(f) == f \o "$arg"
HeadCols(r) == {r.head[i].f : i \in 1..Len(r.head)}
               \cup {ArgCol(r.head[i].f) : i \in {j \in 1..Len(r.head) : r.head[j].agg # ""}}
ColOf(ctx, p, f) == IF p \in DOMAIN ctx.sig /\ f \in DOMAIN ctx.sig[p] THEN ctx.sig[p][f] ELSE TAny

SweepOnce(r, p, ctx, st) ==
  LET ren == [x \in RuleScope(r) \cup {"$"} |-> x]
      RECURSIVE Go(_, _, _)
      Go(i, acc, s) ==
        IF i > Len(r.head) THEN [head |-> acc, st |-> s]
        ELSE LET h == r.head[i]
                 col == ColOf(ctx, p, h.f)
             IN IF h.agg = ""
                THEN LET res == Chk(h.e, col, ren, Sub("h", i), ctx, s)
                     IN Go(i + 1, (h.f :> res.t) @@ acc, res.st)
                ELSE LET res == ChkAgg(h.agg, h.e, col, ColOf(ctx, p, ArgCol(h.f)),
                                       ren, Sub("h", i), ctx, s)
                     IN Go(i + 1, (h.f :> res.t) @@ (ArgCol(h.f) :> res.a) @@ acc, res.st)
      hd == Go(1, NoFields, st)
  IN [head |-> hd.head, st |-> ChkBody(r.body, ren, "b", ctx, hd.st)]

RECURSIVE SweepFix(_, _, _, _, _)
SweepFix(r, p, ctx, st, n) ==
  LET s1 == SweepOnce(r, p, ctx, st)
  IN IF s1.st.bad # {} \/ s1.st.out \/ s1.st = st THEN s1
     ELSE IF n = 0 THEN [s1 EXCEPT !.st = Clash(s1.st, "no finite type")]
     ELSE SweepFix(r, p, ctx, s1.st, n - 1)

(* Disjunction distributes (LSem!Solve): a rule with `|` groups stands for   *)
(* the rules obtained by choosing one alternative of every group, and each  *)
(* of them has its own variables.  (`|` inside a negation or an aggregating  *)
(* expression is outside the fragment; ChkConj would type its alternatives   *)
(* in one environment.)                                                      *)
RECURSIVE Dnf(_)
Dnf(body) ==
  IF \A i \in 1..Len(body) : body[i].k # "or" THEN <<body>>
  ELSE LET i == FirstOr(body)
           pre == SubSeq(body, 1, i - 1)
           post == SubSeq(body, i + 1, Len(body))
       IN Flatten([a \in 1..Len(body[i].alts) |-> Dnf(pre \o body[i].alts[a] \o post)])

RuleInfer1(r, p, ctx) ==
  LET s == SweepFix(r, p, ctx, St0, 12)
  IN [head |-> s.head, bad |-> s.st.bad, out |-> s.st.out,
      ground |-> /\ \A k \in (DOMAIN s.st.env) \ {"$"} : Settled(s.st.env[k])
                 /\ \A f \in (DOMAIN s.head) \ {"$"} : Settled(s.head[f])]

RuleInfer(r, p, ctx) ==
  LET bodies == Dnf(r.body)
      parts == [k \in 1..Len(bodies) |-> RuleInfer1([r EXCEPT !.body = bodies[k]], p, ctx)]
      cols == DOMAIN parts[1].head
      RECURSIVE MeetAll(_, _)
      MeetAll(f, k) == IF k = 0 THEN TAny ELSE MeetC(ctx, MeetAll(f, k - 1), parts[k].head[f])
      head == [f \in cols |-> MeetAll(f, Len(parts))]
  IN [head |-> [f \in cols |-> IF Tg(head[f]) = "Bad" THEN TAny ELSE head[f]],
      bad |-> UNION {parts[k].bad : k \in 1..Len(parts)}
              \cup {"alternatives give column " \o f \o " different types" :
                      f \in {g \in cols : Tg(head[g]) = "Bad"}},
      out |-> \E k \in 1..Len(parts) : parts[k].out,
      ground |-> \A k \in 1..Len(parts) : parts[k].ground]

-----------------------------------------------------------------------------
(* The whole program: column types start unknown and are refined by the    *)
(* heads of the rules until nothing changes.                               *)
PredNames(prog) == {prog.preds[i].name : i \in 1..Len(prog.preds)}
Sig0(prog) ==
  [n \in PredNames(prog) |->
     LET pr == prog.preds[CHOOSE i \in 1..Len(prog.preds) : prog.preds[i].name = n]
     IN [f \in HeadCols(pr.rules[1]) |-> TAny] @@ NoFields]

RuleIdx(prog) ==
  Flatten([i \in 1..Len(prog.preds) |-> [j \in 1..Len(prog.preds[i].rules) |-> <<i, j>>]])

RoundOnce(prog, sig, dev) ==
  LET idx == RuleIdx(prog)
      RECURSIVE Go(_, _, _, _, _)
      Go(k, sg, bad, gr, out) ==
        IF k > Len(idx) THEN [sig |-> sg, bad |-> bad, ground |-> gr, out |-> out]
        ELSE LET pr == prog.preds[idx[k][1]]
                 r == pr.rules[idx[k][2]]
                 p == pr.name
                 ri == RuleInfer(r, p, [sig |-> sg, dev |-> dev])
                 shape == IF HeadCols(r) \cup {"$"} = DOMAIN sg[p] THEN {}
                          ELSE {"rules of " \o p \o " have different columns"}
                 cols == [f \in DOMAIN sg[p] |->
                            IF f \in DOMAIN ri.head
                            THEN MeetD(sg[p][f], ri.head[f], dev)
                            ELSE sg[p][f]]
                 clash == {"column " \o f \o " of " \o p : f \in {g \in DOMAIN cols : Tg(cols[g]) = "Bad"}}
                 cols2 == [f \in DOMAIN cols |-> IF Tg(cols[f]) = "Bad" THEN sg[p][f] ELSE cols[f]]
             IN Go(k + 1, [sg EXCEPT ![p] = cols2],
                   bad \cup {p \o ": " \o b : b \in ri.bad \cup shape \cup clash},
                   gr /\ ri.ground, out \/ ri.out)
  IN Go(1, sig, {}, TRUE, FALSE)

RECURSIVE Rounds(_, _, _, _)
Rounds(prog, sig, dev, n) ==
  LET r == RoundOnce(prog, sig, dev)
  IN IF r.bad # {} \/ r.out \/ r.sig = sig \/ n = 0 THEN r ELSE Rounds(prog, r.sig, dev, n - 1)

(* Columns that are never printed: the argument columns of aggregated     *)
(* fields.                                                                 *)
HiddenOf(prog, p) ==
  LET pr == prog.preds[CHOOSE i \in 1..Len(prog.preds) : prog.preds[i].name = p]
  IN UNION {{ArgCol(pr.rules[j].head[i].f) :
               i \in {k \in 1..Len(pr.rules[j].head) : pr.rules[j].head[k].agg # ""}}
            : j \in 1..Len(pr.rules)}
Visible(prog, sig) ==
  [p \in DOMAIN sig |-> [f \in (DOMAIN sig[p]) \ HiddenOf(prog, p) |-> sig[p][f]]]

(* [ok, sig, bad, det, outside]: sig - the types of the (printed) columns;  *)
(* det - every column and every variable ended Settled, i.e. the program     *)
(* determines its types ("fully determined"); outside - a construct         *)
(* without a typing rule was met (no verdict).                              *)
InferDev(prog, dev) ==
  LET r == Rounds(prog, Sig0(prog), dev, Len(prog.preds) + 3)
  IN [ok |-> r.bad = {}, sig |-> Visible(prog, r.sig), bad |-> r.bad, outside |-> r.out,
      det |-> r.bad = {} /\ r.ground /\ ~r.out
              /\ \A p \in DOMAIN r.sig : \A f \in DOMAIN r.sig[p] : Settled(r.sig[p][f])]

Infer(prog) == InferDev(prog, {})
WellTyped(prog) == Infer(prog).ok
Determined(prog) == Infer(prog).det
Signature(prog, p) == Infer(prog).sig[p]

(* gamma: the column types someone (the program generator) claims.  The    *)
(* program types under gamma iff propagation started from gamma (only the  *)
(* argument columns of aggregated fields unknown) meets no clash, leaves    *)
(* gamma as it is and leaves no variable or column unsettled:               *)
(* every rule then yields exactly gamma for its head.                      *)
WellTypedUnder(prog, gamma) ==
  /\ DOMAIN gamma = PredNames(prog)
  /\ LET start == [p \in PredNames(prog) |->
                     IF HiddenOf(prog, p) = {} THEN gamma[p]
                     ELSE [f \in HiddenOf(prog, p) |-> TAny] @@ gamma[p]]
         r == Rounds(prog, start, {}, Len(prog.preds) + 3)
     IN /\ r.bad = {} /\ r.ground /\ ~r.out
        /\ Visible(prog, r.sig) = gamma
        /\ \A p \in DOMAIN r.sig : \A f \in DOMAIN r.sig[p] : Settled(r.sig[p][f])

-----------------------------------------------------------------------------
(* Values (LValues' tagged values as the harness decodes what SQLite       *)
(* returns: JSON text of lists and records is decoded) against ground      *)
(* types.  SQLite has no booleans: a Bool is 0 or 1.  Every SQL column is  *)
(* nullable: null inhabits every type.  <<"f", text>> is a float.          *)
RECURSIVE Inhabits(_, _)
Inhabits(v, t) ==
  \/ v[1] = "z"
  \/ CASE Tg(t) = "Num" -> v[1] \in {"n", "f"}
       [] Tg(t) = "Str" -> v[1] = "s"
       [] Tg(t) = "Bool" -> v[1] = "n" /\ v[2] \in {0, 1}
       [] Tg(t) = "L" -> v[1] = "l" /\ \A i \in 1..Len(v[2]) : Inhabits(v[2][i], t[2])
       [] Tg(t) = "O" -> /\ v[1] = "r"
                         /\ Fields(t) \subseteq {v[2][i][1] : i \in 1..Len(v[2])}
                         /\ \A i \in 1..Len(v[2]) :
                              v[2][i][1] \in Fields(t) => Inhabits(v[2][i][2], t[2][v[2][i][1]])
       [] Tg(t) = "R" -> /\ v[1] = "r"
                         /\ {v[2][i][1] : i \in 1..Len(v[2])} = Fields(t)
                         /\ \A i \in 1..Len(v[2]) : Inhabits(v[2][i][2], t[2][v[2][i][1]])
       [] OTHER -> FALSE
=============================================================================
