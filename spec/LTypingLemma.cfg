SPECIFICATION Spec
INVARIANT AllLemmas
CHECK_DEADLOCK FALSE
