---------------------------- MODULE LTypingLemma ----------------------------
(***************************************************************************)
(* Model-level lemmas about LTyping, checked by TLC on a small hand-made   *)
(* set of programs ($LEMMA_FILE, ndjson written by harness/typedlemma.py:  *)
(* [name, prog, ok, det, hassig, sig]).                                    *)
(*                                                                         *)
(* States: a hand-made program and every arrangement of it reachable by    *)
(* swapping two neighbouring predicates, two neighbouring rules of a       *)
(* predicate, two neighbouring conjuncts of a rule body / of a negated     *)
(* body / of the body of an aggregating expression, or two neighbouring    *)
(* alternatives of a disjunction (neighbour swaps generate every           *)
(* permutation).  Invariants:                                              *)
(*  PermInvariant  WellTyped, Determined and Signature of the arrangement  *)
(*                 equal those of the program as written;                  *)
(*  AsLabelled     they equal what was written down by hand;               *)
(*  Sound          an accepted, determined program types under the         *)
(*                 signature inferred for it (WellTypedUnder).             *)
(***************************************************************************)
EXTENDS LTyping, Json, IOUtils, TLCExt

VARIABLES base, cur
vars == <<base, cur>>

Swap(s, i) == [k \in 1..Len(s) |-> IF k = i THEN s[i + 1] ELSE IF k = i + 1 THEN s[i] ELSE s[k]]

SwapsOfBody(body) ==
  \* every body obtained by one neighbour swap, at top level or one level down
  {Swap(body, i) : i \in 1..(Len(body) - 1)}
  \cup UNION {
    LET c == body[k] IN
    CASE c.k = "neg" ->
           {[body EXCEPT ![k].body = Swap(@, m)] : m \in 1..(Len(c.body) - 1)}
      [] c.k = "or" ->
           {[body EXCEPT ![k].alts = Swap(@, m)] : m \in 1..(Len(c.alts) - 1)}
           \cup UNION {{[body EXCEPT ![k].alts[a] = Swap(@, m)] : m \in 1..(Len(c.alts[a]) - 1)}
                       : a \in 1..Len(c.alts)}
      [] c.k = "unify" /\ c.r.k = "agg" ->
           {[body EXCEPT ![k].r.body = Swap(@, m)] : m \in 1..(Len(c.r.body) - 1)}
      [] OTHER -> {}
    : k \in 1..Len(body)}

Arrangements(prog) ==
  {[prog EXCEPT !.preds = Swap(@, i)] : i \in 1..(Len(prog.preds) - 1)}
  \cup UNION {{[prog EXCEPT !.preds[pi].rules = Swap(@, j)]
                 : j \in 1..(Len(prog.preds[pi].rules) - 1)} : pi \in 1..Len(prog.preds)}
  \cup UNION {UNION {{[prog EXCEPT !.preds[pi].rules[ri].body = b]
                        : b \in SwapsOfBody(prog.preds[pi].rules[ri].body)}
                     : ri \in 1..Len(prog.preds[pi].rules)} : pi \in 1..Len(prog.preds)}

(* base carries the inference of the program as written (inf), computed    *)
(* once per hand-made program.                                             *)
Init ==
  LET items == ndJsonDeserialize(IOEnv.LEMMA_FILE)
  IN \E i \in 1..Len(items) :
        /\ base = [item |-> items[i], inf |-> Infer(items[i].prog)]
        /\ cur = items[i].prog

Next == /\ cur' \in Arrangements(cur)
        /\ UNCHANGED base

Spec == Init /\ [][Next]_vars

Perm(a, b) == a.ok = b.ok /\ a.det = b.det /\ (a.ok => a.sig = b.sig)
Labelled(a) == /\ a.ok = base.item.ok
               /\ a.det = base.item.det
               /\ base.item.hassig => a.sig = base.item.sig
SoundAt(a) == (a.ok /\ a.det) => WellTypedUnder(cur, a.sig)

PermInvariant == Perm(Infer(cur), base.inf)
AsLabelled == Labelled(Infer(cur))
Sound == SoundAt(Infer(cur))

(* The three lemmas with the inference of the arrangement shared (what the  *)
(* check runs; the clause that fails is printed).                          *)
AllLemmas ==
  LET a == Infer(cur)
      p == Perm(a, base.inf)
      l == Labelled(a)
      s == SoundAt(a)
  IN IF p /\ l /\ s THEN TRUE
     ELSE /\ PrintT(<<"LEMMA-FAILED", base.item.name,
                      [PermInvariant |-> p, AsLabelled |-> l, Sound |-> s]>>)
          /\ FALSE
=============================================================================
