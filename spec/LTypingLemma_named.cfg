SPECIFICATION Spec
INVARIANT PermInvariant
INVARIANT AsLabelled
INVARIANT Sound
CHECK_DEADLOCK FALSE
