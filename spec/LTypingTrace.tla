---------------------------- MODULE LTypingTrace ----------------------------
(***************************************************************************)
(* Judges recorded runs of the real type checker (property C05).           *)
(* Input ($TRACE_FILE, ndjson), one case per line:                         *)
(*  [id, kind, prog, gamma,                                                *)
(*   obs: [ctor: "ok" | <exception class of LogicaProgram(...)>,           *)
(*         sigs: Seq([p, cols: field -> type term]),   printed signatures  *)
(*         preds: Seq([p, status, cls, rows: Seq(col -> tagged value)])]]  *)
(* gamma (pred -> field -> type) is the typing the program generator       *)
(* built; for clean (uncorrupted, kind = "clean") programs the verdict      *)
(* carries gen: whether Signature = gamma, and under: WellTypedUnder(prog,  *)
(* gamma) (a difference means generator and specification disagree - it is  *)
(* a failure of the machinery, never a verdict on the code).  Type terms as in LTyping; a type the code printed that is no    *)
(* ground type constructor arrives as <<"U", text>>.                       *)
(*                                                                         *)
(* Verdict per case (dev = {} is the property):                            *)
(*  ~WellTyped(prog)  =>  TypeErrorCaughtException from the constructor or  *)
(*       from the compilation of some predicate                            *)
(*  WellTyped /\ Determined =>                                             *)
(*       ctor = "ok" and no predicate is rejected when compiled,           *)
(*       printed signature of every predicate = Signature(prog, p),        *)
(*       every value returned Inhabits the type of its column              *)
(*  WellTyped /\ ~Determined: outside the quantifier (no demand).          *)
(* A failing case is re-judged under each named deviation to say which     *)
(* one (if any) explains the disagreement (accept / reject and printed     *)
(* signatures; the values are a consequence and are not re-judged).        *)
(***************************************************************************)
EXTENDS LTyping, Json, IOUtils, TLCExt

VARIABLE pos
Lines == TLCGet(100)

TypeErr == "TypeErrorCaughtException"

SigOf(obs, p) ==
  LET hits == {k \in 1..Len(obs.sigs) : obs.sigs[k].p = p}
  IN IF hits = {} THEN NoFields ELSE obs.sigs[CHOOSE k \in hits : TRUE].cols

(* Open and closed records are printed alike: the comparison is between   *)
(* what can be printed.                                                    *)
PrintedCols(cols) == [f \in DOMAIN cols |-> Printed(cols[f])]
SigDiff(c, inf) ==
  {p \in DOMAIN inf.sig : PrintedCols(SigOf(c.obs, p)) # PrintedCols(inf.sig[p])}

ValueFaults(c, inf) ==
  UNION {
    LET o == c.obs.preds[k]
    IN IF o.status # "ok" \/ o.p \notin DOMAIN inf.sig THEN {}
       ELSE {<<o.p, f>> : f \in {g \in (DOMAIN inf.sig[o.p]) \ {"$"} :
                \E i \in 1..Len(o.rows) :
                   \/ g \notin DOMAIN o.rows[i]
                   \/ ~Inhabits(o.rows[i][g], inf.sig[o.p][g])}}
            \cup {<<o.p, "columns">> : i \in {j \in 1..Len(o.rows) :
                     DOMAIN o.rows[j] # (DOMAIN inf.sig[o.p]) \ {"$"}}}
    : k \in 1..Len(c.obs.preds)}

(* Rejected with a type error: by LogicaProgram(...) (RunTypechecker) or,   *)
(* the constructor having passed, by the compilation of some predicate      *)
(* (SingleRuleSql checks the rule again after injection).                    *)
LateReject(c) == c.obs.ctor = "ok" /\ \E k \in 1..Len(c.obs.preds) : c.obs.preds[k].cls = TypeErr
Rejected(c) == c.obs.ctor = TypeErr \/ LateReject(c)

(* Predicates that fail for another reason (a diagnostic that is not a type  *)
(* error, an SQL error at run time) produce no values: nothing to judge      *)
(* here (other properties own those).  A crash (no diagnostic) while an      *)
(* accepted program is compiled is not an acceptance.                        *)
JudgeWith(c, inf, strict) ==
  IF inf.outside
  THEN [ok |-> TRUE, why |-> "a construct outside the typed fragment: no demand"]
  ELSE IF ~inf.ok
  THEN IF Rejected(c) THEN [ok |-> TRUE, why |-> "ill typed, rejected with a type error"]
       ELSE [ok |-> FALSE, why |-> "ill-typed program was not rejected with a type error"]
  ELSE IF ~inf.det
  THEN [ok |-> TRUE, why |-> "types not determined by the program: no demand"]
  ELSE IF c.obs.ctor # "ok"
  THEN [ok |-> FALSE, why |-> "well-typed program was rejected"]
  ELSE IF \E k \in 1..Len(c.obs.preds) : c.obs.preds[k].cls = TypeErr
  THEN [ok |-> FALSE, why |-> "well-typed program: a predicate was rejected with a type error when compiled"]
  ELSE IF \E k \in 1..Len(c.obs.preds) : c.obs.preds[k].status = "internal"
  THEN [ok |-> FALSE, why |-> "well-typed program: compilation crashed without a diagnostic"]
  ELSE IF SigDiff(c, inf) # {}
  THEN [ok |-> FALSE, why |-> "printed signature differs from Signature"]
  ELSE IF strict /\ ValueFaults(c, inf) # {}
  THEN [ok |-> FALSE, why |-> "a returned value does not inhabit the type of its column"]
  ELSE [ok |-> TRUE, why |-> "well typed: accepted, signatures equal, values inhabit"]

Judge(c) ==
  LET inf == Infer(c.prog)
      j == JudgeWith(c, inf, TRUE)
      explains == IF j.ok THEN {}
                  ELSE {d \in TypingDeviations : JudgeWith(c, InferDev(c.prog, {d}), FALSE).ok}
      all == IF j.ok \/ explains # {} THEN FALSE
             ELSE JudgeWith(c, InferDev(c.prog, TypingDeviations), FALSE).ok
      nvals == LET RECURSIVE Sum(_)
                   Sum(k) == IF k = 0 THEN 0
                             ELSE Sum(k - 1) + Len(c.obs.preds[k].rows) * Cardinality(DOMAIN SigOf(c.obs, c.obs.preds[k].p) \ {"$"})
               IN IF j.ok /\ inf.ok /\ inf.det THEN Sum(Len(c.obs.preds)) ELSE 0
      gen == IF c.kind # "clean" THEN "n/a"
             ELSE IF inf.ok /\ inf.det /\ inf.sig = c.gamma THEN "agrees"
             ELSE IF ~inf.ok THEN "spec finds a clash"
             ELSE IF ~inf.det THEN "undetermined"
             ELSE "differs"
  IN [id |-> c.id, ok |-> j.ok, why |-> j.why, wt |-> inf.ok, det |-> inf.det, outside |-> inf.outside,
      clash |-> inf.bad,
      dev |-> IF explains # {} THEN explains ELSE IF all THEN TypingDeviations ELSE {},
      sigdiff |-> IF inf.ok /\ inf.det /\ c.obs.ctor = "ok" THEN SigDiff(c, inf) ELSE {},
      faults |-> IF inf.ok /\ inf.det /\ c.obs.ctor = "ok" THEN ValueFaults(c, inf) ELSE {},
      npreds |-> IF j.ok /\ inf.ok /\ inf.det THEN Cardinality(DOMAIN inf.sig) ELSE 0,
      nvals |-> nvals, gen |-> gen, late |-> ~inf.ok /\ LateReject(c),
      notrun |-> Cardinality({k \in 1..Len(c.obs.preds) : c.obs.preds[k].status # "ok"}),
      under |-> IF c.kind = "clean" /\ inf.ok /\ inf.det THEN WellTypedUnder(c.prog, c.gamma) ELSE TRUE,
      sig |-> IF inf.ok THEN inf.sig ELSE ("$" :> NoFields)]

Init ==
  /\ pos = 1
  /\ TLCSet(1, 0)
  /\ TLCSet(2, 0)
  /\ TLCSet(100, ndJsonDeserialize(IOEnv.TRACE_FILE))

Next ==
  /\ pos <= Len(Lines)
  /\ LET v == Judge(Lines[pos])
     IN /\ PrintT(<<"V", ToJson(v)>>)
        /\ TLCSet(2, TLCGet(2) + 1)
        /\ IF v.ok THEN TRUE ELSE TLCSet(1, TLCGet(1) + 1)
  /\ pos' = pos + 1

Spec == Init /\ [][Next]_pos
Accepted == TLCGet(1) = 0 /\ TLCGet(2) = Len(Lines)
=============================================================================
