------------------------------ MODULE LValues ------------------------------
(***************************************************************************)
(* The value universe of Logica programs as the documentation describes    *)
(* it, together with SQL's three-valued comparison, the built-in           *)
(* functions, and the aggregates as folds over bags (sequences).           *)
(*                                                                         *)
(* A value is a tagged pair (TLC compares tuples component-wise and stops  *)
(* at the tag, so heterogeneous values can live in one set):               *)
(*   <<"n", i>>   integer (booleans are 1/0, as on the SQLite engine)      *)
(*   <<"s", cs>>  string, cs a sequence of code points                     *)
(*   <<"z", 0>>   null                                                     *)
(*   <<"l", vs>>  list                                                     *)
(*   <<"r", fs>>  record, fs a sequence of <<name, value>> sorted by name  *)
(*   <<"m", vs>>  list whose element order is unspecified (result of List= *)
(*                / Set=); vs is kept sorted, an observed list matches it  *)
(*                iff it is a permutation                                  *)
(*   <<"any", vs>> one of the values vs (ties of ArgMin/ArgMax)            *)
(***************************************************************************)
EXTENDS Integers, Sequences, FiniteSets, TLC, SequencesExt, Functions

Null == <<"z", 0>>
Num(i) == <<"n", i>>
Str(cs) == <<"s", cs>>
Lst(vs) == <<"l", vs>>
Rec(fs) == <<"r", fs>>
Bool(b) == IF b THEN <<"n", 1>> ELSE <<"n", 0>>
IsNull(v) == v[1] = "z"

RECURSIVE Flatten(_)
Flatten(ss) ==   \* divide and conquer keeps the evaluation stack shallow
  IF ss = <<>> THEN <<>>
  ELSE IF Len(ss) = 1 THEN ss[1]
  ELSE LET h == Len(ss) \div 2
       IN Flatten(SubSeq(ss, 1, h)) \o Flatten(SubSeq(ss, h + 1, Len(ss)))

FlatMap(s, Op(_)) == Flatten([i \in 1..Len(s) |-> Op(s[i])])

Filter(s, P(_)) == SelectSeq(s, P)

(* Cross product of a sequence of sequences: sequence of tuples. *)
RECURSIVE Cross(_)
Cross(ss) ==
  IF ss = <<>> THEN << <<>> >>
  ELSE LET rest == Cross(Tail(ss))
       IN Flatten([i \in 1..Len(Head(ss)) |->
                     [j \in 1..Len(rest) |-> <<Head(ss)[i]>> \o rest[j]]])

-----------------------------------------------------------------------------
(* Orders.  Within a tag: integers by <, strings lexicographically by code  *)
(* point (binary collation).  Across tags: null < number < string, the     *)
(* storage-class order of the SQLite engine (only used by Sort / Min / Max  *)
(* on mixed data, which the generated fragment avoids).                    *)

RECURSIVE SeqLess(_, _)
SeqLess(a, b) ==
  IF a = <<>> THEN b # <<>>
  ELSE IF b = <<>> THEN FALSE
  ELSE IF a[1] < b[1] THEN TRUE
  ELSE IF a[1] > b[1] THEN FALSE
  ELSE SeqLess(Tail(a), Tail(b))

TagRank(t) == CASE t = "z" -> 0 [] t = "n" -> 1 [] t = "s" -> 2
                [] t = "l" -> 3 [] t = "m" -> 3 [] t = "r" -> 4 [] OTHER -> 5

RECURSIVE VLess(_, _)
RECURSIVE VSeqLess(_, _)
VSeqLess(a, b) ==
  IF a = <<>> THEN b # <<>>
  ELSE IF b = <<>> THEN FALSE
  ELSE IF VLess(a[1], b[1]) THEN TRUE
  ELSE IF VLess(b[1], a[1]) THEN FALSE
  ELSE VSeqLess(Tail(a), Tail(b))
VLess(a, b) ==
  IF a[1] # b[1] THEN TagRank(a[1]) < TagRank(b[1])
  ELSE CASE a[1] = "n" -> a[2] < b[2]
         [] a[1] = "s" -> SeqLess(a[2], b[2])
         [] a[1] = "l" -> VSeqLess(a[2], b[2])
         [] a[1] = "m" -> VSeqLess(a[2], b[2])
         [] a[1] = "r" -> VSeqLess([i \in 1..Len(a[2]) |-> a[2][i][2]],
                                   [i \in 1..Len(b[2]) |-> b[2][i][2]])
         [] OTHER -> FALSE

(* Insertion sort of a sequence of values by VLess (stable). *)
RECURSIVE InsertSorted(_, _)
InsertSorted(v, s) ==
  IF s = <<>> THEN <<v>>
  ELSE IF VLess(v, s[1]) THEN <<v>> \o s
  ELSE <<s[1]>> \o InsertSorted(v, Tail(s))
RECURSIVE SortVals(_)
SortVals(s) == IF s = <<>> THEN <<>>
               ELSE InsertSorted(s[Len(s)], SortVals(SubSeq(s, 1, Len(s) - 1)))

RECURSIVE Dedup(_)
Dedup(s) == IF s = <<>> THEN <<>>
            ELSE IF \E j \in 2..Len(s) : s[j] = s[1] THEN Dedup(Tail(s))
            ELSE <<s[1]>> \o Dedup(Tail(s))

NonNull(s) == SelectSeq(s, LAMBDA v : ~IsNull(v))

-----------------------------------------------------------------------------
(* Three-valued comparison: "t", "f" or "u" (unknown: some side is null).  *)
Cmp3(op, a, b) ==
  IF IsNull(a) \/ IsNull(b) THEN "u"
  ELSE LET r == CASE op = "==" -> a = b
                  [] op = "!=" -> a # b
                  [] op = "<"  -> VLess(a, b)
                  [] op = "<=" -> VLess(a, b) \/ a = b
                  [] op = ">"  -> VLess(b, a)
                  [] op = ">=" -> VLess(b, a) \/ a = b
       IN IF r THEN "t" ELSE "f"

Of3(x) == CASE x = "t" -> <<"n", 1>> [] x = "f" -> <<"n", 0>> [] OTHER -> Null
To3(v) == IF IsNull(v) THEN "u" ELSE IF v = <<"n", 0>> THEN "f" ELSE "t"

And3(a, b) == IF a = "f" \/ b = "f" THEN "f"
              ELSE IF a = "t" /\ b = "t" THEN "t" ELSE "u"
Or3(a, b) == IF a = "t" \/ b = "t" THEN "t"
             ELSE IF a = "f" /\ b = "f" THEN "f" ELSE "u"
Not3(a) == CASE a = "t" -> "f" [] a = "f" -> "t" [] OTHER -> "u"

-----------------------------------------------------------------------------
(* Decimal rendering of an integer as code points (ToString). *)
RECURSIVE Digits(_)
Digits(n) == IF n < 10 THEN <<48 + n>> ELSE Digits(n \div 10) \o <<48 + (n % 10)>>
IntText(i) == IF i < 0 THEN <<45>> \o Digits(-i) ELSE Digits(i)

RECURSIVE ParseDigits(_, _)
ParseDigits(cs, acc) == IF cs = <<>> THEN acc
                        ELSE ParseDigits(Tail(cs), acc * 10 + (cs[1] - 48))
IsDigits(cs) == cs # <<>> /\ \A i \in 1..Len(cs) : cs[i] \in 48..57

RECURSIVE SplitCs(_, _, _)
(* Split(cs, sep) for a non-empty separator, Python str.split semantics. *)
SplitCs(cs, sep, cur) ==
  IF cs = <<>> THEN <<cur>>
  ELSE IF Len(cs) >= Len(sep) /\ SubSeq(cs, 1, Len(sep)) = sep
       THEN <<cur>> \o SplitCs(SubSeq(cs, Len(sep) + 1, Len(cs)), sep, <<>>)
       ELSE SplitCs(Tail(cs), sep, cur \o <<cs[1]>>)

RECURSIVE JoinCs(_, _)
JoinCs(items, sep) ==
  IF items = <<>> THEN <<>>
  ELSE IF Len(items) = 1 THEN items[1]
  ELSE items[1] \o sep \o JoinCs(Tail(items), sep)

(* str() of a list element as Join sees it. *)
ElemText(v) == CASE v[1] = "n" -> IntText(v[2])
                 [] v[1] = "s" -> v[2]
                 [] OTHER -> <<63>>

Field(r, f) ==
  IF r[1] # "r" THEN Null
  ELSE IF \E i \in 1..Len(r[2]) : r[2][i][1] = f
       THEN r[2][CHOOSE i \in 1..Len(r[2]) : r[2][i][1] = f][2]
       ELSE Null

-----------------------------------------------------------------------------
(* Built-in functions and operators.  Null in, null out, unless stated.    *)
Builtin(op, a) ==
  LET n == Len(a)
      anyNull == \E i \in 1..n : IsNull(a[i])
  IN
  CASE op = "isnull" -> Bool(IsNull(a[1]))
    [] op = "&&" -> Of3(And3(To3(a[1]), To3(a[2])))
    [] op = "||" -> Of3(Or3(To3(a[1]), To3(a[2])))
    [] op = "!"  -> Of3(Not3(To3(a[1])))
    [] op \in {"==", "!=", "<", "<=", ">", ">="} -> Of3(Cmp3(op, a[1], a[2]))
    [] op = "->" -> Rec(<< <<"arg", a[1]>>, <<"value", a[2]>> >>)
    [] op = "InList" /\ ~IsNull(a[2]) ->
         \* `x in l` as an expression is two-valued (the IN_LIST UDF of the SQLite
         \* engine is Python's `in`): a null element is an element like any other,
         \* a null item is found iff the list holds a null.  The documentation is
         \* silent; this is the behaviour of the unchanged tree, taken as the
         \* meaning (C20 notes).  Only a null *list* gives null.
         Bool(\E i \in 1..Len(a[2][2]) : a[2][2][i] = a[1])
    [] anyNull -> Null
    [] op = "+" -> Num(a[1][2] + a[2][2])
    [] op = "-" -> IF n = 1 THEN Num(0 - a[1][2]) ELSE Num(a[1][2] - a[2][2])
    [] op = "*" -> Num(a[1][2] * a[2][2])
    [] op = "/" ->   \* only exact quotients are in the fragment (C20); integer vs
                     \* real division of other operands is engine-defined
         IF a[2][2] # 0 /\ (a[1][2] % (IF a[2][2] < 0 THEN -a[2][2] ELSE a[2][2])) = 0
         THEN LET x == a[1][2] y == a[2][2]
                  ax == IF x < 0 THEN -x ELSE x
                  ay == IF y < 0 THEN -y ELSE y
              IN Num(IF (x < 0) # (y < 0) THEN -(ax \div ay) ELSE ax \div ay)
         ELSE Assert(FALSE, <<"inexact division is outside the fragment", a>>)
    [] op = "%" -> IF a[2][2] = 0 THEN Null
                   ELSE LET x == a[1][2] y == a[2][2]
                            ax == IF x < 0 THEN -x ELSE x
                            ay == IF y < 0 THEN -y ELSE y
                        IN Num(IF x < 0 THEN -(ax % ay) ELSE ax % ay)
    [] op = "++" -> Str(a[1][2] \o a[2][2])
    [] op = "Size" -> Num(Len(a[1][2]))
    [] op = "Element" ->
         IF a[2][2] >= 0 /\ a[2][2] < Len(a[1][2]) THEN a[1][2][a[2][2] + 1]
         ELSE Null
    [] op = "Range" -> Lst([i \in 1..(IF a[1][2] > 0 THEN a[1][2] ELSE 0)
                             |-> Num(i - 1)])
    [] op = "Sort" -> Lst(SortVals(a[1][2]))
    [] op = "ArrayConcat" -> Lst(a[1][2] \o a[2][2])
    [] op = "Join" -> Str(JoinCs([i \in 1..Len(a[1][2]) |-> ElemText(a[1][2][i])],
                                 a[2][2]))
    [] op = "Split" -> Lst([i \in 1..Len(SplitCs(a[1][2], a[2][2], <<>>)) |->
                              Str(SplitCs(a[1][2], a[2][2], <<>>)[i])])
    [] op = "ToString" -> IF a[1][1] = "n" THEN Str(IntText(a[1][2])) ELSE a[1]
    [] op = "ToInt64" ->
         IF a[1][1] = "n" THEN a[1]
         ELSE IF IsDigits(a[1][2]) THEN Num(ParseDigits(a[1][2], 0))
         ELSE IF Len(a[1][2]) > 1 /\ a[1][2][1] = 45 /\ IsDigits(Tail(a[1][2]))
              THEN Num(0 - ParseDigits(Tail(a[1][2]), 0))
         ELSE Num(0)
    [] op = "Least" -> SortVals(a)[1]
    [] op = "Greatest" -> SortVals(a)[n]
    [] op = "InList" -> Bool(\E i \in 1..Len(a[2][2]) : a[2][2][i] = a[1])
    [] op = "Abs" -> Num(IF a[1][2] < 0 THEN -a[1][2] ELSE a[1][2])
    [] OTHER -> Assert(FALSE, <<"unknown builtin", op>>)

-----------------------------------------------------------------------------
(* Aggregates, as the documentation states them: null inputs are ignored,  *)
(* aggregating nothing gives null.  vals is the bag of aggregated values,  *)
(* in no particular order.                                                 *)
RECURSIVE SumInts(_)
SumInts(s) == IF s = <<>> THEN 0 ELSE s[1][2] + SumInts(Tail(s))

(* args of the minimal (maximal) value among arrow records; permitted set. *)
ArgBest(vals, min) ==
  LET ok == SelectSeq(vals, LAMBDA v : ~IsNull(Field(v, "value")))
      best == IF min THEN SortVals([i \in 1..Len(ok) |-> Field(ok[i], "value")])[1]
              ELSE SortVals([i \in 1..Len(ok) |-> Field(ok[i], "value")])[Len(ok)]
      cands == Dedup(SelectSeq(ok, LAMBDA v : Field(v, "value") = best))
      args == Dedup([i \in 1..Len(cands) |-> Field(cands[i], "arg")])
  IN IF ok = <<>> THEN Null
     ELSE IF Len(args) = 1 THEN args[1] ELSE <<"any", SortVals(args)>>

(* ArgMinK / ArgMaxK (library predicates of the SQLite dialect, used through  *)
(* `ArgMin2(x) = ArgMinK(x, 2)`): the list of the args of the k smallest      *)
(* (largest) values, best first.  Tied values may come in any arrangement and  *)
(* a tie across the k-th place may keep any of the tied rows: the result is    *)
(* any of the permitted lists.  The operator names carry k: "ArgMinK2".        *)
(* Array (`Array= key -> e`): the elements e ordered by key, k = 0 (all).      *)
(* Null values are ignored like in ArgMin / ArgMax; nothing left gives null.   *)
MinKOps == {"ArgMinK1", "ArgMinK2", "ArgMinK3"}
MaxKOps == {"ArgMaxK1", "ArgMaxK2", "ArgMaxK3"}
ArgKOps == MinKOps \cup MaxKOps
KOf(op) == CASE op \in {"ArgMinK1", "ArgMaxK1"} -> 1
             [] op \in {"ArgMinK2", "ArgMaxK2"} -> 2
             [] op \in {"ArgMinK3", "ArgMaxK3"} -> 3
             [] OTHER -> 0

RECURSIVE BestOrders(_, _, _)
(* index sequences over I listing keys best first: repeatedly any best one *)
BestOrders(keys, min, I) ==
  IF I = {} THEN {<<>>}
  ELSE UNION {{<<i>> \o t : t \in BestOrders(keys, min, I \ {i})} :
                i \in {j \in I : \A l \in I :
                          IF min THEN ~VLess(keys[l], keys[j])
                          ELSE ~VLess(keys[j], keys[l])}}

(* pairs: sequence of <<key, payload>>; the payloads of the k best keys     *)
KBestLists(pairs, min, k) ==
  LET n == Len(pairs)
      m == IF k = 0 \/ n < k THEN n ELSE k
      lists == {Lst([i \in 1..m |-> pairs[p[i]][2]]) :
                  p \in BestOrders([i \in 1..n |-> pairs[i][1]], min, 1..n)}
  IN IF Cardinality(lists) = 1 THEN CHOOSE l \in lists : TRUE
     ELSE <<"any", SortVals(SetToSeq(lists))>>

ArgKBest(vals, min, k) ==
  LET ok == SelectSeq(vals, LAMBDA v : ~IsNull(Field(v, "value")))
  IN IF ok = <<>> THEN Null
     ELSE KBestLists([i \in 1..Len(ok) |-> <<Field(ok[i], "value"), Field(ok[i], "arg")>>],
                     min, k)

ArrayOf(vals) ==
  LET ok == SelectSeq(vals, LAMBDA v : ~IsNull(Field(v, "arg")))
  IN IF ok = <<>> THEN Null
     ELSE KBestLists([i \in 1..Len(ok) |-> <<Field(ok[i], "arg"), Field(ok[i], "value")>>],
                     TRUE, 0)

(* dev: the set of named *engine deviations* under which the bag is         *)
(* evaluated.  The documented semantics is dev = {}.  Deviations exist only  *)
(* to classify a disagreement precisely ("explained by exactly this          *)
(* deviation"): they are never used to accept anything silently.             *)
Deviations == {"count_empty_zero", "list_empty_brackets", "set_empty_brackets",
               "list_keeps_nulls", "set_keeps_nulls", "zero_key_one_row",
               "argbest_single_null_value"}

Agg(op, vals, dev) ==
  LET nn == NonNull(vals) IN
  CASE op \in {"ArgMin", "ArgMax"} /\ "argbest_single_null_value" \in dev
         /\ Len(vals) = 1 /\ IsNull(Field(vals[1], "value")) -> Field(vals[1], "arg")
    [] op \in {"ArgMin", "ArgMax"} -> ArgBest(vals, op = "ArgMin")
    [] op \in ArgKOps /\ "argbest_single_null_value" \in dev
         /\ Len(vals) = 1 /\ IsNull(Field(vals[1], "value")) -> Lst(<<Field(vals[1], "arg")>>)
    [] op \in ArgKOps -> ArgKBest(vals, op \in MinKOps, KOf(op))
    [] op = "Array" -> ArrayOf(vals)
    [] op = "List" /\ "list_keeps_nulls" \in dev /\ vals # <<>> -> <<"m", SortVals(vals)>>
    [] op = "Set" /\ "set_keeps_nulls" \in dev /\ vals # <<>> -> <<"m", SortVals(Dedup(vals))>>
    [] op = "Count" /\ "count_empty_zero" \in dev /\ nn = <<>> -> Num(0)
    [] op = "List" /\ "list_empty_brackets" \in dev /\ nn = <<>> -> <<"m", <<>> >>
    [] op = "Set" /\ "set_empty_brackets" \in dev /\ nn = <<>> -> <<"m", <<>> >>
    [] nn = <<>> -> Null
    [] op = "Sum" -> Num(SumInts(nn))
    [] op = "Min" -> SortVals(nn)[1]
    [] op = "Max" -> SortVals(nn)[Len(nn)]
    [] op = "Count" -> Num(Len(Dedup(nn)))
    [] op = "List" -> <<"m", SortVals(nn)>>
    [] op = "Set" -> <<"m", SortVals(Dedup(nn))>>
    [] op = "Avg" -> <<"q", SumInts(nn), Len(nn)>>
    [] op = "AnyValue" -> IF Len(Dedup(nn)) = 1 THEN nn[1] ELSE <<"any", SortVals(Dedup(nn))>>
    [] OTHER -> Assert(FALSE, <<"unknown aggregate", op>>)

-----------------------------------------------------------------------------
(* Does a value contain an unresolved tie? *)
RECURSIVE HasAny(_)
HasAny(v) == CASE v[1] = "any" -> TRUE
               [] v[1] \in {"l", "m"} -> \E i \in 1..Len(v[2]) : HasAny(v[2][i])
               [] v[1] = "r" -> \E i \in 1..Len(v[2]) : HasAny(v[2][i][2])
               [] OTHER -> FALSE

(* A concrete representative of a denoted value (as an engine could return it). *)
RECURSIVE Concrete(_)
Concrete(v) == CASE v[1] = "m" -> <<"l", [i \in 1..Len(v[2]) |-> Concrete(v[2][i])]>>
                 [] v[1] = "l" -> <<"l", [i \in 1..Len(v[2]) |-> Concrete(v[2][i])]>>
                 [] v[1] = "r" -> <<"r", [i \in 1..Len(v[2]) |-> <<v[2][i][1], Concrete(v[2][i][2])>>]>>
                 [] v[1] = "any" -> Concrete(v[2][1])
                 [] OTHER -> v

(* Matching an observed value against an expected one. *)
RECURSIVE VMatch(_, _)
VMatch(e, o) ==
  CASE e[1] = "m" -> o[1] = "l" /\ SortVals(o[2]) = e[2]
    [] e[1] = "any" -> \E i \in 1..Len(e[2]) : VMatch(e[2][i], o)
    [] e[1] = "q" -> (o[1] = "n" /\ o[2] * e[3] = e[2])
                     \/ (o[1] = "q" /\ o[2] * e[3] = e[2] * o[3])
    [] e[1] = "l" -> o[1] = "l" /\ Len(o[2]) = Len(e[2])
                     /\ \A i \in 1..Len(e[2]) : VMatch(e[2][i], o[2][i])
    [] e[1] = "r" -> o[1] = "r" /\ Len(o[2]) = Len(e[2])
                     /\ \A i \in 1..Len(e[2]) : /\ e[2][i][1] = o[2][i][1]
                                                /\ VMatch(e[2][i][2], o[2][i][2])
    [] OTHER -> e = o

=============================================================================
