SPECIFICATION Spec
INVARIANT TypeOK
INVARIANT OnceEach
INVARIANT BoundedReps
INVARIANT AfterInputs
INVARIANT DeclaredOrder
INVARIANT FinishedMeansRan
INVARIANT Complete
PROPERTY Termination
CHECK_DEADLOCK FALSE
VIEW View
