---------------------------- MODULE MCConcertina ----------------------------
(* Model: the abstract scheduler over the configurations in $C14_INPUT.    *)
EXTENDS Concertina, TLC

ASSUME \A k \in DOMAIN Lines : WellFormedCfg(ConfigOf(k))
ASSUME PrintT(<<"CONFIGS", Len(Lines)>>)
=============================================================================
