---------------------------- MODULE MCConcertina ----------------------------
(* Model: the abstract scheduler over the configurations in $C14_CONFIGS.  *)
EXTENDS Concertina, ConcertinaLoad, TLC

Loaded == [k \in DOMAIN RawConfigs |-> Derive(NormCfg(RawConfigs[k]))]
ASSUME \A k \in DOMAIN Loaded : WellFormedCfg(Loaded[k])
Count == PrintT(<<"CONFIGS", Len(Loaded)>>)
ASSUME Count
=============================================================================
