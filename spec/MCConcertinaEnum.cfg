SPECIFICATION Spec
CONSTANTS
  MinN = 1
  MaxN = 3
  MinReps = 1
  MaxReps = 2
  MaxGroups = 1
  MaxLen = 2
  Labelling = "all"
  Timing = TRUE
  Shape = "all"
