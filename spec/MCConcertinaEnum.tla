-------------------------- MODULE MCConcertinaEnum --------------------------
(***************************************************************************)
(* Cross-check of the harness's configuration enumerator: for a small      *)
(* bound, the set of configurations in $C14_INPUT must be exactly the      *)
(* family defined declaratively in ConcertinaConfigs.                      *)
(***************************************************************************)
EXTENDS ConcertinaCfg, ConcertinaConfigs, TLC

FromFile == {NormCfg(Lines[k].cfg) : k \in DOMAIN Lines}
ASSUME PrintT(<<"ENUM", Cardinality(FromFile), Cardinality(Configs),
                Len(Lines)>>)
ASSUME FromFile = Configs
ASSUME Cardinality(FromFile) = Len(Lines)      \* no duplicates in the file

VARIABLE x
Spec == x = 0 /\ [][x' = x]_x
=============================================================================
