SPECIFICATION Spec
CONSTANTS
  MinN = 1
  MaxN = 3
  MinReps = 1
  MaxReps = 2
  MaxGroups = 2
  MaxLen = 3
  Labelling = "all"
  Timing = FALSE
  Shape = "all"
