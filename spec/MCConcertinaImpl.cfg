SPECIFICATION Spec
INVARIANT NotStuck
INVARIANT DoneMeansAll
INVARIANT AbsOnceEach
INVARIANT AbsBoundedReps
INVARIANT AbsAfterInputs
INVARIANT AbsDeclaredOrder
INVARIANT AbsComplete
INVARIANT Export
PROPERTY AbsSafe
PROPERTY AbsTermination
PROPERTY ImplTermination
CHECK_DEADLOCK FALSE
VIEW IView
