-------------------------- MODULE MCConcertinaImpl --------------------------
(* Model: ConcertinaImpl => Concertina over the configurations in          *)
(* $C14_CONFIGS; every terminal state prints the predicted call sequence   *)
(* <<"B", ToJson([ci, log])>> for the harness (MODEL-DRIFT comparison).    *)
EXTENDS ConcertinaImpl, ConcertinaLoad

Loaded == [k \in DOMAIN RawConfigs |-> Abs!Derive(NormCfg(RawConfigs[k]))]
ASSUME \A k \in DOMAIN Loaded : Abs!WellFormedCfg(Loaded[k])
ASSUME PrintT(<<"CONFIGS", Len(Loaded)>>)

Export == phase = "done" => PrintT(<<"B", ToJson([ci |-> ci, log |-> log])>>)
=============================================================================
