-------------------------- MODULE MCConcertinaImpl --------------------------
(* Model: ConcertinaImpl => Concertina over the configurations in          *)
(* $C14_INPUT; every terminal state prints the predicted call sequence     *)
(* <<"B", ToJson([ci, log])>> for the harness (MODEL-DRIFT comparison).    *)
EXTENDS ConcertinaImpl

ASSUME \A k \in DOMAIN Lines : WellFormedCfg(ConfigOf(k))
ASSUME PrintT(<<"CONFIGS", Len(Lines)>>)

Export == phase = "done" => PrintT(<<"B", ToJson([ci |-> ci, log |-> log])>>)
=============================================================================
