SPECIFICATION Spec
INVARIANT NotStuck
INVARIANT Export
CHECK_DEADLOCK FALSE
VIEW IView
