------------------------------ MODULE MCGround ------------------------------
(***************************************************************************)
(* Ground.tla instantiated over one family of GroundModels.tla.            *)
(*                                                                         *)
(* MCGround.cfg (KeepHist = TRUE): the history of every behaviour is kept  *)
(* in the state, so TLC explores - and prints - EVERY history of at most   *)
(* MaxSteps actions:                                                       *)
(*   <<"F", json>>  once: the family (programs, grounded predicates, ...)   *)
(*   <<"H", json>>  per maximal history: the sequence of actions with the   *)
(*                  file and the returned rows expected after every step    *)
(*   <<"COV", json>> at the end: how often each action was taken           *)
(* The harness replays each history on the real pipeline and compares      *)
(* after every step.                                                       *)
(*                                                                         *)
(* MCGroundFull.cfg (KeepHist = FALSE, VIEW without the step counter): the *)
(* complete reachable state space of the machine, histories of any length. *)
(*                                                                         *)
(* TLC's -coverage cannot be used: building its cost model over LSem's     *)
(* nested recursive operators does not finish (> 20 min before the first    *)
(* state).  The per-action counts are therefore kept by the specification  *)
(* itself in TLC registers (exact with -workers 1) and printed by the      *)
(* POSTCONDITION.                                                          *)
(***************************************************************************)
EXTENDS Ground, GroundModels, Json

CONSTANTS FamilyIx, KeepHist

VARIABLE hist

Fam == Families[FamilyIx]
MCVersions == Fam.versions
MCRunnable == Range(Fam.runnable)
MCStaleTables == {Fam.stale[i].t : i \in 1..Len(Fam.stale)}
MCStaleBag(t) == Fam.stale[CHOOSE i \in 1..Len(Fam.stale) : Fam.stale[i].t = t].bag

ASSUME PrintT(<<"F", ToJson([ix |-> FamilyIx, family |-> Fam])>>)

Kinds == <<"RunDependant", "RunPlain", "RunGrounded", "RunAgain", "PrePopulate",
           "SwitchVersion", "RunInSecondVersion", "RunOverStaleTable">>
Bump(k) == TLCSet(k, TLCGet(k) + 1)

MCInit == Init /\ hist = <<>> /\ \A k \in 1..Len(Kinds) : TLCSet(k, 0)

(* a run that has to overwrite a table somebody else left under the name   *)
(* of a grounded predicate below p                                          *)
OverStale == \E q \in GDeps(V, last'.act[2]) :
                /\ TableOf(V, q) \in DOMAIN file
                /\ TableOf(V, q) \in MCStaleTables
                /\ SameBag(file[TableOf(V, q)], MCStaleBag(TableOf(V, q)))

StepOverStale == last'.act[1] = "Run" /\ OverStale
(* tables the run reads directly / (re)writes; <<>> for the other actions *)
StepReads == IF last'.act[1] = "Run"
             THEN SetToSeq({TableOf(V, q) : q \in DirectG(V, last'.act[2])}) ELSE <<>>
StepWrites == IF last'.act[1] = "Run"
              THEN SetToSeq(WrittenTables(V, last'.act[2])) ELSE <<>>
KindOfStep ==
  CASE last'.act[1] = "Pre" -> "PrePopulate"
    [] last'.act[1] = "Switch" -> "SwitchVersion"
    [] OTHER -> IF last'.prev = last'.act THEN "RunAgain"
                ELSE IF last'.act[2] \in GPreds(V) THEN "RunGrounded"
                ELSE IF GDeps(V, last'.act[2]) # {} THEN "RunDependant" ELSE "RunPlain"

MCNext ==
  /\ \/ NRunDependant /\ Bump(1)
     \/ NRunPlain /\ Bump(2)
     \/ NRunGrounded /\ Bump(3)
     \/ NRunAgain /\ Bump(4)
     \/ NPrePopulate /\ Bump(5)
     \/ SwitchVersion /\ Bump(6)
  /\ (last'.act[1] = "Run" /\ ver = 2) => Bump(7)
  /\ StepOverStale => Bump(8)
  /\ hist' = IF KeepHist
             THEN Append(hist, [a |-> last'.act[1], p |-> last'.act[2], ver |-> ver',
                                kind |-> KindOfStep, stale |-> StepOverStale,
                                reads |-> StepReads, writes |-> StepWrites,
                                file |-> file', out |-> out'])
             ELSE hist
MCSpec == MCInit /\ [][MCNext]_<<vars, hist>>

(* printed once per distinct maximal history (an invariant is evaluated    *)
(* once per distinct state, and hist is part of the state)                 *)
Export == (KeepHist /\ steps = MaxSteps) =>
             PrintT(<<"H", ToJson([ix |-> FamilyIx, hist |-> hist])>>)

AbstractView == <<file, out, ver, last>>

Coverage == PrintT(<<"COV", ToJson([k \in 1..Len(Kinds) |-> [kind |-> Kinds[k], taken |-> TLCGet(k)]])>>)

=============================================================================
