SPECIFICATION MCSpec
CONSTANTS
  FamilyIx = 8
  MaxSteps = 99
  KeepHist = FALSE
  Versions <- MCVersions
  Runnable <- MCRunnable
  StaleTables <- MCStaleTables
  StaleBag <- MCStaleBag
VIEW AbstractView
INVARIANT GroundedFaithful
INVARIANT DependantsReadTables
INVARIANT Idempotent
INVARIANT PrintDoesNotWrite
INVARIANT OnlyDependenciesWritten
POSTCONDITION Coverage
CHECK_DEADLOCK FALSE
