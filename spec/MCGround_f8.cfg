SPECIFICATION MCSpec
CONSTANTS
  FamilyIx = 8
  MaxSteps = 3
  KeepHist = TRUE
  Versions <- MCVersions
  Runnable <- MCRunnable
  StaleTables <- MCStaleTables
  StaleBag <- MCStaleBag
INVARIANT GroundedFaithful
INVARIANT DependantsReadTables
INVARIANT Idempotent
INVARIANT PrintDoesNotWrite
INVARIANT OnlyDependenciesWritten
INVARIANT Export
POSTCONDITION Coverage
CHECK_DEADLOCK FALSE
