SPECIFICATION Spec
CONSTANT Model = "ideal"
INVARIANT FunctionOfProgram
INVARIANT Deterministic
CHECK_DEADLOCK FALSE
