SPECIFICATION Spec
CONSTANT Model = "asbuilt"
INVARIANT FunctionOfProgram
INVARIANT Deterministic
CHECK_DEADLOCK FALSE
