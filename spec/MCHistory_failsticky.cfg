SPECIFICATION Spec
CONSTANT Model = "failsticky"
INVARIANT FunctionOfProgram
INVARIANT Deterministic
CHECK_DEADLOCK FALSE
