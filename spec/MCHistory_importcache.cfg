SPECIFICATION Spec
CONSTANT Model = "importcache"
INVARIANT FunctionOfProgram
INVARIANT Deterministic
CHECK_DEADLOCK FALSE
