SPECIFICATION Spec
CONSTANT Model = "leak"
INVARIANT FunctionOfProgram
INVARIANT Deterministic
CHECK_DEADLOCK FALSE
