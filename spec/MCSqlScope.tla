----------------------------- MODULE MCSqlScope -----------------------------
(***************************************************************************)
(* SqlScope model-checked on its own: every sequence of STEPS (short event *)
(* sequences from a small alphabet) up to MaxLen steps, with the history h *)
(* of events kept, so that the automaton's verdict can be compared with    *)
(* independent characterisations computed from h:                          *)
(*   LBrackets    the bracket verdict is exactly "the bracket word reduces *)
(*                to nothing by cancelling adjacent matching pairs", and   *)
(*                br is the reduced word                                   *)
(*   LRefs        accepted statement => every ref has an alias of that     *)
(*                name in the statement; on flat statements (SELECT first, *)
(*                no brackets/union) accepted <=> refs \subseteq aliases;  *)
(*                an                                                       *)
(*                "alias" error names a name that was referenced           *)
(*   LScopeExact  when every bracket is a sub-query (open is followed by   *)
(*                select; no union/with): accepted <=> every ref(a) has an *)
(*                alias(a) whose bracket group encloses the ref            *)
(*   LWith        accepted => every use(t) is preceded in its statement by *)
(*                with/withrec(t), or t was created by an earlier          *)
(*                statement; a with-order error names a used table         *)
(*   LShape       WellShaped                                               *)
(* plus unit scenarios (ASSUME) for correlation, siblings, union branches, *)
(* WITH visibility and CREATE across statements.  Error states are         *)
(* terminal (the error is absorbing).                                      *)
(***************************************************************************)
EXTENDS SqlScope

CONSTANTS MaxLen, Steps

VARIABLES st, h, n

E(k, a) == <<k, a>>

StepsBr == { <<E("open", "(")>>, <<E("close", "(")>>, <<E("open", "[")>>,
             <<E("close", "[")>>, <<E("select", "")>>, <<E("end", "")>>,
             <<E("alias", "a")>>, <<E("ref", "a")>> }

StepsScope == { <<E("open", "("), E("select", "")>>, <<E("close", "(")>>,
                <<E("select", "")>>, <<E("end", "")>>,
                <<E("alias", "a")>>, <<E("ref", "a")>>,
                <<E("alias", "b")>>, <<E("ref", "b")>> }

StepsWith == { <<E("with", "t"), E("open", "("), E("select", "")>>,
               <<E("withrec", "t"), E("open", "("), E("select", "")>>,
               <<E("with", "u"), E("open", "("), E("select", "")>>,
               <<E("close", "(")>>, <<E("select", "")>>, <<E("end", "")>>,
               <<E("use", "t")>>, <<E("use", "u")>>, <<E("create", "t")>>,
               <<E("union", "")>>, <<E("alias", "a")>>, <<E("ref", "a")>>,
               <<E("open", "("), E("select", "")>> }

StepsMisc == { <<E("select", "")>>, <<E("from", "")>>, <<E("str", "")>>,
               <<E("ph", "brace")>>, <<E("useext", "x")>>, <<E("end", "")>>,
               <<E("union", "")>>, <<E("alias", "a")>>, <<E("ref", "a")>>,
               <<E("open", "{")>>, <<E("close", "{")>>, <<E("bogus", "")>> }

Init == st = Start /\ h = <<>> /\ n = 0

Next ==
  /\ n < MaxLen
  /\ st.err.clause = ""
  /\ \E s \in Steps : st' = RunFrom(st, s, 1) /\ h' = h \o s
  /\ n' = n + 1

Spec == Init /\ [][Next]_<<st, h, n>>

-----------------------------------------------------------------------------
Len_ == Len(h)
Ends == {k \in 1..(Len(h) - 1) : h[k][1] = "end"}
SegStart == IF Ends = {} THEN 1 ELSE (CHOOSE k \in Ends : \A j \in Ends : j <= k) + 1
Seg == SubSeq(h, SegStart, Len(h))
AtEnd == Len(h) > 0 /\ h[Len(h)][1] = "end"
Ok == st.err.clause = ""

IsBr(e) == e[1] \in {"open", "close"}

RECURSIVE Reduce(_)
Reduce(w) ==
  LET hits == {k \in 1..(Len(w) - 1) :
                 w[k][1] = "open" /\ w[k + 1][1] = "close" /\ w[k][2] = w[k + 1][2]}
  IN IF hits = {} THEN w
     ELSE LET k == CHOOSE x \in hits : \A y \in hits : x <= y
          IN Reduce(SubSeq(w, 1, k - 1) \o SubSeq(w, k + 2, Len(w)))

LBrackets ==
  LET r == Reduce(SelectSeq(Seg, IsBr))
      hasClose == \E k \in 1..Len(r) : r[k][1] = "close"
  IN /\ (Ok /\ ~AtEnd) => (~hasClose /\ st.br = [k \in 1..Len(r) |-> r[k][2]])
     /\ (Ok /\ AtEnd) => r = <<>>
     /\ (st.err.clause = "bracket") <=> (hasClose \/ (AtEnd /\ r # <<>>))

Names(seg, kind) == {seg[k][2] : k \in {j \in 1..Len(seg) : seg[j][1] = kind}}
Flat(seg) == \A k \in 1..Len(seg) : seg[k][1] \notin {"open", "close", "union"}

LRefs ==
  /\ (Ok /\ AtEnd) => Names(Seg, "ref") \subseteq Names(Seg, "alias")
  /\ (AtEnd /\ Flat(Seg) /\ Seg[1][1] = "select") =>
        ((st.err.clause = "alias") <=> ~(Names(Seg, "ref") \subseteq Names(Seg, "alias")))
  /\ (st.err.clause = "alias") => (AtEnd /\ st.err.detail \in Names(Seg, "ref"))

(* Bracket depth at which event p of seg occurs.                           *)
D(seg, p) == Cardinality({k \in 1..(p - 1) : seg[k][1] = "open"})
             - Cardinality({k \in 1..(p - 1) : seg[k][1] = "close"})
Between(i, j) == IF i <= j THEN i..j ELSE j..i
Encloses(seg, j, i) == \A p \in Between(i, j) : D(seg, p) >= D(seg, j)
SubqueryShaped(seg) ==
  /\ Len(seg) > 0 /\ seg[1][1] = "select"
  /\ \A k \in 1..Len(seg) :
       /\ seg[k][1] \notin {"union", "with", "withrec"}
       /\ seg[k][1] = "open" => (k < Len(seg) /\ seg[k + 1][1] = "select")
       /\ seg[k][1] = "select" => (k = 1 \/ seg[k - 1][1] = "open")
Resolved(seg) ==
  \A i \in 1..Len(seg) : seg[i][1] = "ref" =>
     \E j \in 1..Len(seg) : seg[j][1] = "alias" /\ seg[j][2] = seg[i][2]
                            /\ Encloses(seg, j, i)

LScopeExact ==
  (AtEnd /\ SubqueryShaped(Seg) /\ st.err.clause \in {"", "alias"}) =>
     (Ok <=> Resolved(Seg))

LWith ==
  /\ Ok => \A i \in 1..Len(Seg) : Seg[i][1] = "use" =>
        \/ \E j \in 1..(i - 1) : Seg[j][1] \in {"with", "withrec"} /\ Seg[j][2] = Seg[i][2]
        \/ \E j \in 1..(SegStart - 1) : h[j][1] = "create" /\ h[j][2] = Seg[i][2]
  /\ (st.err.clause = "with-order") =>
        (Len(h) > 0 /\ h[Len(h)][1] = "use" /\ h[Len(h)][2] = st.err.detail)

(* Duplicates: an alias-dup / with-dup error names the last event's name,   *)
(* which occurred earlier in the statement with the same kind; on flat      *)
(* statements (SELECT first) a repeated alias is always an error.           *)
LDup ==
  LET n_ == Len(Seg)
      earlier(kinds, a) == \E j \in 1..(n_ - 1) : Seg[j][1] \in kinds /\ Seg[j][2] = a
  IN /\ (st.err.clause = "alias-dup") =>
          (n_ > 0 /\ Seg[n_][1] = "alias" /\ Seg[n_][2] = st.err.detail
           /\ earlier({"alias"}, st.err.detail))
     /\ (st.err.clause = "with-dup") =>
          (\E k \in 1..n_ : Seg[k][1] \in {"with", "withrec"} /\ Seg[k][2] = st.err.detail
              /\ \E j \in 1..(k - 1) : Seg[j][1] \in {"with", "withrec"} /\ Seg[j][2] = st.err.detail)
     /\ (n_ > 0 /\ Flat(Seg) /\ Seg[1][1] = "select" /\ Seg[n_][1] = "alias"
         /\ earlier({"alias"}, Seg[n_][2])) => st.err.clause = "alias-dup"

LShape == WellShaped(st) /\ st.i = Len(h)

LMisc ==
  /\ (st.err.clause = "placeholder") <=> (Len(h) > 0 /\ h[Len(h)][1] = "ph")
  /\ (st.err.clause = "unknown-event") <=> (Len(h) > 0 /\ h[Len(h)][1] = "bogus")

-----------------------------------------------------------------------------
(* Unit scenarios.                                                         *)
O == E("open", "(")   C == E("close", "(")   Sel == E("select", "")
Fin == E("end", "")   U == E("union", "")
Cl(evs) == Run(evs).err.clause

ASSUME \* correlated sub-query sees the enclosing alias, also before its definition
  /\ Cl(<<Sel, O, Sel, E("ref", "a"), C, E("from", ""), E("alias", "a"), Fin>>) = ""
  /\ Cl(<<Sel, E("alias", "a"), O, Sel, O, Sel, E("ref", "a"), C, C, Fin>>) = ""
ASSUME \* an alias of a sub-query is invisible outside and to its sibling
  /\ Cl(<<Sel, O, Sel, E("alias", "a"), C, E("ref", "a"), Fin>>) = "alias"
  /\ Cl(<<Sel, O, Sel, E("alias", "a"), C, O, Sel, E("ref", "a"), C, Fin>>) = "alias"
ASSUME \* brackets without SELECT (function calls) do not open a scope
  /\ Cl(<<Sel, O, E("ref", "a"), C, E("alias", "a"), Fin>>) = ""
  /\ Cl(<<Sel, E("alias", "x"), O, E("alias", "a"), C, E("ref", "a"), Fin>>) = ""
ASSUME \* UNION branches are separate scopes; both see the enclosing query
  /\ Cl(<<Sel, E("alias", "a"), U, Sel, E("ref", "a"), Fin>>) = "alias"
  /\ Cl(<<Sel, E("alias", "o"), O, Sel, E("ref", "o"), U, Sel, E("ref", "o"), C, Fin>>) = ""
  /\ Cl(<<Sel, O, Sel, E("alias", "a"), E("ref", "a"), U, Sel, E("alias", "b"), E("ref", "b"), C,
          E("alias", "u"), E("ref", "u"), Fin>>) = ""
ASSUME \* WITH: defined before use, visible in later WITH bodies and in both UNION branches
  /\ Cl(<<E("with", "t"), O, Sel, C, E("with", "u"), O, Sel, E("use", "t"), C, Sel,
          E("use", "u"), U, Sel, E("use", "t"), Fin>>) = ""
  /\ Cl(<<E("with", "u"), O, Sel, E("use", "t"), C, E("with", "t"), O, Sel, C, Sel, Fin>>) = "with-order"
  /\ Cl(<<E("with", "t"), O, Sel, E("use", "t"), C, Sel, Fin>>) = "with-order"
  /\ Cl(<<E("withrec", "t"), O, Sel, U, Sel, E("use", "t"), C, Sel, E("use", "t"), Fin>>) = ""
  /\ Cl(<<Sel, O, E("with", "t"), O, Sel, C, Sel, E("use", "t"), C, E("use", "t"), Fin>>) = "with-order"
  /\ Cl(<<Sel, E("use", "t"), Fin>>) = "with-order"
ASSUME \* CREATE TABLE serves the later statements of the script only
  /\ Cl(<<E("create", "t"), Sel, Fin, Sel, E("use", "t"), Fin>>) = ""
  /\ Cl(<<E("create", "t"), Sel, E("use", "t"), Fin>>) = "with-order"
  /\ Cl(<<Sel, E("use", "t"), Fin, E("create", "t"), Sel, Fin>>) = "with-order"
ASSUME \* duplicates: one WITH list, one from-list; other scopes may reuse a name
  /\ Cl(<<E("with", "t"), O, Sel, C, E("with", "t"), O, Sel, C, Sel, Fin>>) = "with-dup"
  /\ Cl(<<E("with", "t"), O, Sel, C, Sel, O, E("with", "t"), O, Sel, C, Sel, C, Fin>>) = ""
  /\ Cl(<<E("with", "t"), O, Sel, C, Sel, Fin, E("with", "t"), O, Sel, C, Sel, Fin>>) = ""
  /\ Cl(<<Sel, E("alias", "a"), E("alias", "a"), Fin>>) = "alias-dup"
  /\ Cl(<<Sel, E("alias", "a"), O, Sel, E("alias", "a"), C, Fin>>) = ""
  /\ Cl(<<Sel, E("alias", "a"), U, Sel, E("alias", "a"), Fin>>) = ""
ASSUME \* brackets, placeholders, statement boundary
  /\ Cl(<<Sel, O, E("open", "["), C, Fin>>) = "bracket"
  /\ Cl(<<Sel, O, Fin>>) = "bracket"
  /\ Cl(<<Sel, E("ph", "brace"), Fin>>) = "placeholder"
  /\ Cl(<<Sel, E("alias", "a"), Fin, Sel, E("ref", "a"), Fin>>) = "alias"
  /\ Run(<<Sel, O, Sel, E("alias", "a"), C, E("ref", "a"), Fin>>).err
       = [clause |-> "alias", detail |-> "a", at |-> 7]
=============================================================================
