SPECIFICATION Spec
CONSTANT MaxLen = 6
CONSTANT Steps <- StepsScope
INVARIANT LBrackets
INVARIANT LRefs
INVARIANT LScopeExact
INVARIANT LWith
INVARIANT LDup
INVARIANT LShape
INVARIANT LMisc
CHECK_DEADLOCK FALSE
