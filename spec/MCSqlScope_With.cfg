SPECIFICATION Spec
CONSTANT MaxLen = 6
CONSTANT Steps <- StepsWith
INVARIANT LBrackets
INVARIANT LRefs
INVARIANT LScopeExact
INVARIANT LWith
INVARIANT LDup
INVARIANT LShape
INVARIANT LMisc
CHECK_DEADLOCK FALSE
