------------------------------ MODULE ProgGen ------------------------------
(***************************************************************************)
(* The program-builder state machine: TLC's state graph of this module IS  *)
(* the enumeration of "all programs up to a bound" of a small profile of   *)
(* the core language.  A behaviour picks a fact table, adds literals to a  *)
(* rule body (in canonical pool order, so every body is reached once),     *)
(* closes the rule with a head (only range-restricted rules may be closed: *)
(* LStatic!SafeRule), optionally adds a second rule, and finishes.  Every  *)
(* Finish state is exported as JSON (the IR of harness/ir.py) and replayed *)
(* on the real pipeline; TLC (LSemTrace) then judges the returned rows.    *)
(*                                                                         *)
(* Model-level theorems checked here as invariants over all built          *)
(* programs: Den is invariant under reversing bodies and rule order        *)
(* (DenPermInvariant), and valid programs evaluate without getting stuck   *)
(* (implicit: Den is evaluated for every finished program).                *)
(***************************************************************************)
EXTENDS LStatic, Json

CONSTANTS MaxLits,       \* literals per rule body
          MaxRules,      \* rules of P
          MaxLits2,      \* literals per body of the second rule
          Profile        \* "core" | "agg"

V(n) == [k |-> "var", name |-> n]
C(i) == [k |-> "lit", v |-> <<"n", i>>]
O(op, a, b) == [k |-> "op", op |-> op, args |-> <<a, b>>]
A(p, a, b) == [k |-> "atom", p |-> p, args |-> <<[f |-> "col0", e |-> a], [f |-> "col1", e |-> b]>>]
Cmp(e) == [k |-> "cmp", e |-> e]
U(l, r) == [k |-> "unify", l |-> l, r |-> r]
In(l, items) == [k |-> "inc", l |-> l, r |-> [k |-> "list", items |-> items]]
Ng(body) == [k |-> "neg", body |-> body]
Or2(a, b) == [k |-> "or", alts |-> <<a, b>>]
Ag(op, e, body) == [k |-> "agg", op |-> op, e |-> e, body |-> body]

x == V("x")  y == V("y")  z == V("z")  w == V("w")

Terms == <<x, y, z, C(1)>>

AtomPool == [i \in 1..16 |-> A("E", Terms[((i - 1) \div 4) + 1], Terms[((i - 1) % 4) + 1])]

CorePool == AtomPool \o <<
  Cmp(O("<", x, y)), Cmp(O("==", x, C(1))), Cmp(O("!=", y, x)), Cmp(O("<=", z, C(1))),
  U(z, O("+", x, C(1))), U(z, y), U(y, C(1)), U(O("+", x, y), z),
  In(z, <<x, C(1)>>), In(y, <<C(0), C(1)>>), In(x, <<C(1), C(1)>>),
  Or2(<<U(x, C(0))>>, <<U(x, C(1))>>), Or2(<<A("E", x, y)>>, <<A("E", y, x)>>),
  Or2(<<Cmp(O("<", x, C(1)))>>, <<Cmp(O("<", x, C(2)))>>) >>

AggPool == AtomPool \o <<
  Ng(<<A("E", x, y)>>), Ng(<<A("E", y, C(1))>>), Ng(<<A("E", x, w)>>),
  Ng(<<A("E", x, w), A("E", w, y)>>),
  U(z, Ag("Sum", w, <<A("E", x, w)>>)), U(z, Ag("Count", w, <<A("E", w, y)>>)),
  U(z, Ag("Max", w, <<A("E", w, V("w2"))>>)), U(z, Ag("Min", O("+", w, x), <<A("E", x, w)>>)),
  U(V("lst"), Ag("List", w, <<A("E", x, w)>>)),
  U(z, Ag("Sum", w, <<A("E", x, w), U(V("w2"), Ag("Max", V("w3"), <<A("E", w, V("w3"))>>))>>)),
  Cmp(O("<", x, y)), U(y, C(1)) >>

Pool == IF Profile = "agg" THEN AggPool ELSE CorePool

H(f, e, agg) == [f |-> f, e |-> e, agg |-> agg]
CoreHeads == <<
  [head |-> <<H("col0", x, "")>>, distinct |-> FALSE],
  [head |-> <<H("col0", x, ""), H("col1", y, "")>>, distinct |-> FALSE],
  [head |-> <<H("col0", y, ""), H("logica_value", O("+", x, C(1)), "")>>, distinct |-> FALSE],
  [head |-> <<H("col0", z, ""), H("a", x, "")>>, distinct |-> FALSE],
  [head |-> <<H("col0", x, "")>>, distinct |-> TRUE] >>
AggHeads == <<
  [head |-> <<H("col0", x, ""), H("col1", z, "")>>, distinct |-> FALSE],
  [head |-> <<H("col0", x, "")>>, distinct |-> TRUE],
  [head |-> <<H("col0", x, ""), H("s", y, "Sum")>>, distinct |-> TRUE],
  [head |-> <<H("col0", x, ""), H("logica_value", y, "Max"), H("c", y, "Count")>>, distinct |-> TRUE],
  [head |-> <<H("col0", y, ""), H("l", x, "List")>>, distinct |-> TRUE],
  [head |-> <<H("col0", x, ""), H("l", V("lst"), "")>>, distinct |-> FALSE] >>
Heads == IF Profile = "agg" THEN AggHeads ELSE CoreHeads

Fact(a, b) == [head |-> <<H("col0", C(a), ""), H("col1", C(b), "")>>, distinct |-> FALSE, body |-> <<>>]
DBs == << <<Fact(0, 1), Fact(1, 2)>>,
          <<Fact(0, 1), Fact(0, 1), Fact(1, 1)>>,
          <<Fact(1, 0), Fact(0, 0), Fact(2, 1), Fact(1, 1)>> >>

VARIABLES db,      \* index into DBs
          lits,    \* indices (increasing) of the literals of the rule being built
          rules,   \* finished rules of P
          done

vars == <<db, lits, rules, done>>

Body(ls) == [i \in 1..Len(ls) |-> Pool[ls[i]]]
RuleOf(h, ls) == [head |-> Heads[h].head, distinct |-> Heads[h].distinct, body |-> Body(ls)]

ProgOf(d, rs) ==
  [preds |-> << [name |-> "E", rules |-> DBs[d], inline |-> FALSE, order |-> <<>>, limit |-> -1],
                [name |-> "P", rules |-> rs, inline |-> FALSE, order |-> <<>>, limit |-> -1] >>,
   rec |-> <<>>, makes |-> <<>>, annpreds |-> <<>>, reserved |-> <<>>]

Ctx0 == [preds |-> PredMap(ProgOf(1, <<>>)), db |-> EmptyDb, dev |-> {}]

Init == db \in 1..Len(DBs) /\ lits = <<>> /\ rules = <<>> /\ done = FALSE

AddLiteral(i) ==
  /\ ~done /\ Len(lits) < MaxLits /\ Len(rules) < MaxRules
  /\ IF lits = <<>> THEN TRUE ELSE lits[Len(lits)] < i
  /\ lits' = Append(lits, i)
  /\ UNCHANGED <<db, rules, done>>

SameShape(h) ==
  IF rules = <<>> THEN TRUE
  ELSE /\ {rules[1].head[i].f : i \in 1..Len(rules[1].head)}
            = {Heads[h].head[i].f : i \in 1..Len(Heads[h].head)}
       /\ rules[1].distinct = Heads[h].distinct

CloseRule(h) ==
  /\ ~done /\ lits # <<>> /\ Len(rules) < MaxRules
  /\ SameShape(h)
  /\ SafeRule(RuleOf(h, lits), FALSE, Ctx0)
  /\ rules' = Append(rules, RuleOf(h, lits))
  /\ lits' = <<>>
  /\ UNCHANGED <<db, done>>

Finish ==
  /\ ~done /\ rules # <<>> /\ lits = <<>>
  /\ done' = TRUE
  /\ PrintT(<<"CASE", ToJson(ProgOf(db, rules))>>)
  /\ UNCHANGED <<db, lits, rules>>

Next == (\E i \in 1..Len(Pool) : AddLiteral(i)) \/ (\E h \in 1..Len(Heads) : CloseRule(h)) \/ Finish

Spec == Init /\ [][Next]_vars

(* Only the first rule is enumerated exhaustively; a second rule is added   *)
(* from single-literal bodies to keep the space finite and small.           *)
Bound == Len(rules) >= 1 => Len(lits) <= MaxLits2

-----------------------------------------------------------------------------
RECURSIVE Rev(_)
Rev(s) == IF s = <<>> THEN <<>> ELSE Rev(Tail(s)) \o <<s[1]>>
RevRule(r) == [r EXCEPT !.body = Rev(@)]
BagEq(a, b) ==
  \A r \in Range(a) \cup Range(b) :
     Cardinality({j \in 1..Len(a) : a[j] = r}) = Cardinality({j \in 1..Len(b) : b[j] = r})

DenPermInvariant ==
  done => LET p1 == ProgOf(db, rules)
              p2 == ProgOf(db, Rev([i \in 1..Len(rules) |-> RevRule(rules[i])]))
          IN BagEq(Den(p1)["P"], Den(p2)["P"])
=============================================================================
