SPECIFICATION Spec
CONSTANTS MaxLits = 2
MaxRules = 2
MaxLits2 = 1
Profile = "agg"
CONSTRAINT Bound
INVARIANT DenPermInvariant
CHECK_DEADLOCK FALSE
