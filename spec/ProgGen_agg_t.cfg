SPECIFICATION Spec
CONSTANTS MaxLits = 3
MaxRules = 1
MaxLits2 = 0
Profile = "agg"
CONSTRAINT Bound
INVARIANT DenPermInvariant
CHECK_DEADLOCK FALSE
