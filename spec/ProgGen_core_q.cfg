SPECIFICATION Spec
CONSTANTS MaxLits = 2
MaxRules = 1
MaxLits2 = 0
Profile = "core"
CONSTRAINT Bound
INVARIANT DenPermInvariant
CHECK_DEADLOCK FALSE
