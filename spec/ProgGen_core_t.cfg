SPECIFICATION Spec
CONSTANTS MaxLits = 3
MaxRules = 1
MaxLits2 = 0
Profile = "core"
CONSTRAINT Bound
INVARIANT DenPermInvariant
CHECK_DEADLOCK FALSE
