------------------------------ MODULE SqlScope ------------------------------
(***************************************************************************)
(* Structural well-formedness of emitted SQL as a push-down automaton over *)
(* token EVENTS (property C09, DESIGN.md Appendix A.6).                    *)
(*                                                                         *)
(* An event is a pair <<kind, arg>> of strings:                            *)
(*   <<"open", k>>  <<"close", k>>   bracket of kind k ("(" "[" "{"; the   *)
(*                      lexer also brackets quoted identifiers and block   *)
(*                      comments with kinds "`" "\"" "/*", so an           *)
(*                      unterminated one is an unbalanced bracket)         *)
(*   <<"select","">>    the keyword SELECT                                 *)
(*   <<"from","">>      the keyword FROM opening a from-list (no effect)   *)
(*   <<"union","">>     UNION / EXCEPT / INTERSECT between two SELECTs     *)
(*   <<"alias", a>>     a table alias introduced in a from-list            *)
(*   <<"ref", a>>       first component of a dotted name a.column          *)
(*   <<"with", t>>      `t AS (` of a WITH list; t becomes visible when    *)
(*                      the bracket that follows is closed                 *)
(*   <<"withrec", t>>   the same under WITH RECURSIVE: visible at once     *)
(*   <<"use", t>>       a table name in a from-list that must be defined   *)
(*                      by the script (compiler-allocated name t_N_.. or a *)
(*                      name the script defines by WITH / CREATE TABLE)    *)
(*   <<"useext", t>>    any other table name in a from-list (no effect)    *)
(*   <<"create", t>>    CREATE TABLE t AS ...: t exists for the LATER      *)
(*                      statements of the script                           *)
(*   <<"str","">>       a string literal token (no effect here; its text   *)
(*                      is judged by StrLit in the trace specification)    *)
(*   <<"ph", kind>>     compiler-internal placeholder outside literals     *)
(*   <<"end","">>       end of statement                                   *)
(*                                                                         *)
(* State: the stack br of open brackets; the stack fr of FRAMES, one per   *)
(* query level, [depth, defs, refs, withs, pend, sel]; the tables created  *)
(* by earlier statements; the first error.                                 *)
(*                                                                         *)
(* Rules.  A SELECT (or the first name of a WITH list) at a bracket depth  *)
(* that has no frame yet pushes one.  `alias` adds to the top frame's      *)
(* defs, `ref` to its refs (a forward reference inside SELECT .. FROM is   *)
(* ordinary SQL, so nothing is decided yet).  Closing the bracket a frame  *)
(* lives in pops it and hands refs \ defs to the parent frame (correlated  *)
(* sub-queries may use the aliases of every enclosing query).  UNION ends  *)
(* a branch: its unresolved refs go to the parent, defs and refs start     *)
(* afresh, WITH tables stay.  At `end` brackets must be closed and nothing *)
(* may be left unresolved.  `use t` needs t among the WITH tables of the   *)
(* frames on the stack or among the tables created by earlier statements.  *)
(* One WITH list must not define a name twice (`with-dup`) and one query   *)
(* level must not introduce an alias twice (`alias-dup`).                   *)
(* Any `ph` is an error.  The first error is kept (absorbing).             *)
(***************************************************************************)
EXTENDS Naturals, Integers, Sequences, FiniteSets, TLC

NoErr == [clause |-> "", detail |-> "", at |-> 0]

Frame(d, sel) == [depth |-> d, defs |-> {}, refs |-> {}, withs |-> {},
                  pend |-> "", sel |-> sel]

(* The root frame (depth -1) is the parent of every top-level query.       *)
Root == Frame(0 - 1, FALSE)

Fresh(created, i) ==
  [br |-> <<>>, fr |-> <<Root>>, created |-> created, creating |-> {},
   err |-> NoErr, i |-> i]

Start == Fresh({}, 0)

Top(s) == s.fr[Len(s.fr)]
SetTop(s, f) == [s EXCEPT !.fr[Len(s.fr)] = f]
Push(s, f) == [s EXCEPT !.fr = Append(@, f)]
Depth(s) == Len(s.br)

Fail(s, clause, detail) ==
  [s EXCEPT !.err = [clause |-> clause, detail |-> detail, at |-> s.i]]

Unresolved(f) == f.refs \ f.defs

(* Pop the top frame of a frame stack with at least two frames.            *)
PopSeq(fr) ==
  LET n == Len(fr)
      p == [fr[n - 1] EXCEPT !.refs = @ \cup Unresolved(fr[n])]
  IN Append(SubSeq(fr, 1, n - 2), p)

RECURSIVE Collapse(_)
Collapse(fr) == IF Len(fr) = 1 THEN fr[1] ELSE Collapse(PopSeq(fr))

Visible(s) == s.created \cup UNION {s.fr[k].withs : k \in 1..Len(s.fr)}

DoClose(s, k) ==
  IF s.br = <<>> \/ s.br[Len(s.br)] # k THEN Fail(s, "bracket", k)
  ELSE LET d == Len(s.br)
           u == [s EXCEPT !.br = SubSeq(@, 1, d - 1)]
           v == IF Top(u).depth = d THEN [u EXCEPT !.fr = PopSeq(@)] ELSE u
           f == Top(v)
       IN IF f.pend # "" /\ f.depth = d - 1
          THEN SetTop(v, [f EXCEPT !.withs = @ \cup {f.pend}, !.pend = ""])
          ELSE v

DoSelect(s) ==
  IF Top(s).depth = Depth(s) THEN SetTop(s, [Top(s) EXCEPT !.sel = TRUE])
  ELSE Push(s, Frame(Depth(s), TRUE))

DoUnion(s) ==
  IF Top(s).depth = Depth(s) /\ Len(s.fr) >= 2
  THEN LET n == Len(s.fr)
           f == s.fr[n]
       IN [s EXCEPT !.fr[n - 1].refs = @ \cup Unresolved(f),
                    !.fr[n].refs = {}, !.fr[n].defs = {}]
  ELSE s

DoWith(s, t, rec) ==
  LET u == IF Top(s).depth = Depth(s) THEN s
           ELSE Push(s, Frame(Depth(s), FALSE))
      f == Top(u)
  IN IF t \in f.withs \/ t = f.pend THEN Fail(s, "with-dup", t)
     ELSE IF rec THEN SetTop(u, [f EXCEPT !.withs = @ \cup {t}])
     ELSE SetTop(u, [f EXCEPT !.pend = t])

(* Two items of one from-list must not introduce the same alias.           *)
DoAlias(s, a) ==
  IF a \in Top(s).defs THEN Fail(s, "alias-dup", a)
  ELSE SetTop(s, [Top(s) EXCEPT !.defs = @ \cup {a}])

DoUse(s, t) ==
  IF t \in Visible(s) THEN s ELSE Fail(s, "with-order", t)

DoEnd(s) ==
  IF s.br # <<>> THEN Fail(s, "bracket", s.br[Len(s.br)])
  ELSE LET open == Unresolved(Collapse(s.fr))
       IN IF open # {} THEN Fail(s, "alias", CHOOSE a \in open : TRUE)
          ELSE Fresh(s.created \cup s.creating, s.i)

Apply(s0, e) ==
  LET s == [s0 EXCEPT !.i = @ + 1] IN
  IF s.err.clause # "" THEN s
  ELSE CASE e[1] = "open"    -> [s EXCEPT !.br = Append(@, e[2])]
         [] e[1] = "close"   -> DoClose(s, e[2])
         [] e[1] = "select"  -> DoSelect(s)
         [] e[1] = "from"    -> s
         [] e[1] = "union"   -> DoUnion(s)
         [] e[1] = "alias"   -> DoAlias(s, e[2])
         [] e[1] = "ref"     -> SetTop(s, [Top(s) EXCEPT !.refs = @ \cup {e[2]}])
         [] e[1] = "with"    -> DoWith(s, e[2], FALSE)
         [] e[1] = "withrec" -> DoWith(s, e[2], TRUE)
         [] e[1] = "use"     -> DoUse(s, e[2])
         [] e[1] = "useext"  -> s
         [] e[1] = "create"  -> [s EXCEPT !.creating = @ \cup {e[2]}]
         [] e[1] = "str"     -> s
         [] e[1] = "ph"      -> Fail(s, "placeholder", e[2])
         [] e[1] = "end"     -> DoEnd(s)
         [] OTHER            -> Fail(s, "unknown-event", e[1])

RECURSIVE RunFrom(_, _, _)
RunFrom(s, evs, k) == IF k > Len(evs) THEN s ELSE RunFrom(Apply(s, evs[k]), evs, k + 1)

(* The automaton run over a whole script.                                  *)
Run(evs) == RunFrom(Start, evs, 1)

Accepts(evs) == Run(evs).err.clause = ""

(* Shape invariant of reachable states: one frame per depth, innermost     *)
(* last, never deeper than the bracket stack.                              *)
WellShaped(s) ==
  /\ Len(s.fr) >= 1 /\ s.fr[1].depth = 0 - 1
  /\ \A k \in 2..Len(s.fr) : s.fr[k].depth > s.fr[k - 1].depth
  /\ Top(s).depth <= Len(s.br)
=============================================================================
