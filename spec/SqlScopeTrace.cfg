SPECIFICATION Spec
INVARIANT Shape
POSTCONDITION Accepted
CHECK_DEADLOCK FALSE
