--------------------------- MODULE SqlScopeTrace ---------------------------
(***************************************************************************)
(* Trace validation for property C09: the SQL the real compiler emitted,   *)
(* lexed into events by harness/sqllex.py, is run through the automaton of *)
(* SqlScope one event per TLC state; string tokens are judged by StrLit.   *)
(*                                                                         *)
(* Input: ndjson ($TRACE_FILE), one SCRIPT per line (the statements of     *)
(* defines_and_exports followed by main_predicate_sql of one predicate):   *)
(*   [id   |-> string,                                                     *)
(*    d    |-> dialect name (a member of StrLit!Dialects),                 *)
(*    ev   |-> sequence of events <<kind, arg>> (see SqlScope),            *)
(*    strs |-> sequence of <<event index, code points>>, the text of each  *)
(*             distinct string-literal token with the index of its first   *)
(*             "str" event,                                                *)
(*    want |-> sequence of code-point sequences: strings of the program    *)
(*             that the script must carry as literals - for each of them   *)
(*             some token of strs must be one literal of the dialect that  *)
(*             DECODES to exactly that string (StrLit!Decode)]             *)
(* Output: one tuple <<"V", json>> per line with                           *)
(*   [id, ok, clause, detail, at]                                          *)
(* clause: "bracket" (unbalanced bracket of kind detail at event at),      *)
(* "alias" (unresolved alias detail), "with-order" (table detail used      *)
(* before its WITH / CREATE), "placeholder" (leak of kind detail),         *)
(* "string" (token at event at is not one literal of the dialect; detail   *)
(* is StrLit's reason), "string-content" (no literal of the script decodes *)
(* to the wanted string number `at` of want; detail = how many tokens).    *)
(* POSTCONDITION: every line judged, none bad.                             *)
(***************************************************************************)
EXTENDS SqlScope, Json, IOUtils, TLCExt

SL == INSTANCE StrLit

VARIABLES li, pos, st

Lines == TLCGet(100)

BadStrs(L) == {k \in 1..Len(L.strs) : ~SL!IsOneLiteral(L.d, L.strs[k][2])}

(* The strings every well-formed token of the script denotes.              *)
Denoted(L) == {SL!Decode(L.d, L.strs[k][2]) :
                 k \in {j \in 1..Len(L.strs) : SL!IsOneLiteral(L.d, L.strs[j][2])}}

Missing(L) == LET den == Denoted(L)
              IN {k \in 1..Len(L.want) : L.want[k] \notin den}

Verdict(L, fin) ==
  LET bad == BadStrs(L)
      k == CHOOSE x \in bad : \A y \in bad : L.strs[x][1] <= L.strs[y][1]
      strFirst == bad # {} /\ (fin.err.clause = "" \/ L.strs[k][1] < fin.err.at)
  IN IF strFirst
     THEN [id |-> L.id, ok |-> FALSE, clause |-> "string",
           detail |-> SL!Lex(L.d, L.strs[k][2]).why, at |-> L.strs[k][1]]
     ELSE IF fin.err.clause # ""
     THEN [id |-> L.id, ok |-> FALSE, clause |-> fin.err.clause,
           detail |-> fin.err.detail, at |-> fin.err.at]
     ELSE LET miss == Missing(L)
          IN IF miss # {}
             THEN [id |-> L.id, ok |-> FALSE, clause |-> "string-content",
                   detail |-> ToString(Len(L.strs)) \o " tokens",
                   at |-> CHOOSE x \in miss : \A y \in miss : x <= y]
             ELSE [id |-> L.id, ok |-> TRUE, clause |-> "", detail |-> "", at |-> 0]

Init ==
  /\ TLCSet(100, ndJsonDeserialize(IOEnv.TRACE_FILE))
  /\ TLCSet(1, 0) /\ TLCSet(2, 0)
  /\ li = 1 /\ pos = 1 /\ st = Start

Next ==
  /\ li <= Len(Lines)
  /\ LET L == Lines[li] IN
       IF pos <= Len(L.ev)
       THEN /\ st' = Apply(st, L.ev[pos])
            /\ pos' = pos + 1 /\ li' = li
       ELSE /\ LET v == Verdict(L, Apply(st, <<"end", "">>))
               IN /\ PrintT(<<"V", ToJson(v)>>)
                  /\ TLCSet(2, TLCGet(2) + 1)
                  /\ (v.ok \/ TLCSet(1, TLCGet(1) + 1))
            /\ li' = li + 1 /\ pos' = 1 /\ st' = Start

Spec == Init /\ [][Next]_<<li, pos, st>>

Shape == WellShaped(st)

Accepted == TLCGet(1) = 0 /\ TLCGet(2) = Len(Lines)
=============================================================================
