--------------------------- MODULE SqlScopeTrace ---------------------------
(***************************************************************************)
(* Trace validation for property C09: the SQL the real compiler emitted,   *)
(* lexed into events by harness/sqllex.py, is run through the automaton of *)
(* SqlScope one event per TLC state; string tokens are judged by StrLit.   *)
(*                                                                         *)
(* Input: ndjson ($TRACE_FILE), one SCRIPT per line (the statements of     *)
(* defines_and_exports followed by main_predicate_sql of one predicate):   *)
(*   [id   |-> string,                                                     *)
(*    d    |-> dialect name (a member of StrLit!Dialects),                 *)
(*    ev   |-> sequence of events <<kind, arg>> (see SqlScope),            *)
(*    strs |-> sequence of <<event index, code points>>, the text of each  *)
(*             distinct string-literal token with the index of its first   *)
(*             "str" event]                                                *)
(* Output: one tuple <<"V", json>> per line with                           *)
(*   [id, ok, clause, detail, at]                                          *)
(* clause: "bracket" (unbalanced bracket of kind detail at event at),      *)
(* "alias" (unresolved alias detail), "with-order" (table detail used      *)
(* before its WITH / CREATE), "placeholder" (leak of kind detail),         *)
(* "string" (token at event at is not one literal of the dialect; detail   *)
(* is StrLit's reason).  POSTCONDITION: every line judged, none bad.       *)
(***************************************************************************)
EXTENDS SqlScope, Json, IOUtils, TLCExt

SL == INSTANCE StrLit

VARIABLES li, pos, st

Lines == TLCGet(100)

BadStrs(L) == {k \in 1..Len(L.strs) : ~SL!IsOneLiteral(L.d, L.strs[k][2])}

Verdict(L, fin) ==
  LET bad == BadStrs(L)
      k == CHOOSE x \in bad : \A y \in bad : L.strs[x][1] <= L.strs[y][1]
      strFirst == bad # {} /\ (fin.err.clause = "" \/ L.strs[k][1] < fin.err.at)
  IN IF strFirst
     THEN [id |-> L.id, ok |-> FALSE, clause |-> "string",
           detail |-> SL!Lex(L.d, L.strs[k][2]).why, at |-> L.strs[k][1]]
     ELSE [id |-> L.id, ok |-> fin.err.clause = "", clause |-> fin.err.clause,
           detail |-> fin.err.detail, at |-> fin.err.at]

Init ==
  /\ TLCSet(100, ndJsonDeserialize(IOEnv.TRACE_FILE))
  /\ TLCSet(1, 0) /\ TLCSet(2, 0)
  /\ li = 1 /\ pos = 1 /\ st = Start

Next ==
  /\ li <= Len(Lines)
  /\ LET L == Lines[li] IN
       IF pos <= Len(L.ev)
       THEN /\ st' = Apply(st, L.ev[pos])
            /\ pos' = pos + 1 /\ li' = li
       ELSE /\ LET v == Verdict(L, Apply(st, <<"end", "">>))
               IN /\ PrintT(<<"V", ToJson(v)>>)
                  /\ TLCSet(2, TLCGet(2) + 1)
                  /\ (v.ok \/ TLCSet(1, TLCGet(1) + 1))
            /\ li' = li + 1 /\ pos' = 1 /\ st' = Start

Spec == Init /\ [][Next]_<<li, pos, st>>

Shape == WellShaped(st)

Accepted == TLCGet(1) = 0 /\ TLCGet(2) = Len(Lines)
=============================================================================
