------------------------------ MODULE SqliteAgg ------------------------------
(***************************************************************************)
(* Property C20, Appendix A.8 of DESIGN.md: the aggregating UDFs of the    *)
(* SQLite engine as a state machine.                                       *)
(*                                                                         *)
(*   mode = "ArgMin" | "ArgMax"   K-best machine (classes ArgMin / ArgMax; *)
(*                                 k = 0 is `limit = null`, used by Array)  *)
(*   mode = "Distinct"            DistinctListAgg                           *)
(*   mode = "Concat"              ArrayConcatAgg                            *)
(*                                                                         *)
(* state   mode, k fixed by Init (every configuration of Configs)           *)
(*         steps   the inputs fed so far (history)                          *)
(*         kept    what the machine retains (see SqliteAggOps)              *)
(*         phase   "run" | "done";  result  what Finalize returned          *)
(* actions Step(x) for every x of the input domain while |steps| < bound    *)
(*         Finalize (possible after any number of steps)                    *)
(*                                                                         *)
(* TLC explores ALL step sequences (and all nondeterministic choices of the *)
(* machine) and checks                                                      *)
(*   ResultPermitted   every result Finalize can return is one the         *)
(*                     property permits: the args of the K best values,     *)
(*                     best first, ties in any permitted arrangement;       *)
(*                     the set of inputs; the concatenation                 *)
(*   FinSubset         the same in every reachable state (every prefix)     *)
(*   KBest             kept = the K best values fed so far (as a bag)       *)
(*   OrderIndep        Permitted(steps) = Permitted(any permutation of      *)
(*                     steps): permitted results depend on the bag of       *)
(*                     inputs only                                          *)
(*   UniqueNoTies      without ties exactly one result is permitted and the *)
(*                     machine returns it; with OrderIndep: the result is   *)
(*                     the same for every arrival order                     *)
(* and, when Export = TRUE, prints every behaviour (the step sequence and   *)
(* the set of permitted results) as one JSON object for the replay into     *)
(* the real Python classes (checks/c20.py).                                 *)
(***************************************************************************)
EXTENDS SqliteAggOps, Json

CONSTANTS Configs,     \* set of <<mode, k>>
          ArgSteps, NArgs, NVals,        \* Arg modes: bound, |args|, |values|
          DistinctSteps, NElems,         \* Distinct
          ConcatSteps, MaxList, NItems,  \* Concat: lists of length <= MaxList over NItems items
          PermLen,                       \* OrderIndep is evaluated up to this many steps
          Export

VARIABLES mode, k, steps, kept, phase, result
vars == <<mode, k, steps, kept, phase, result>>

(* configuration sets a .cfg can name (`Configs <- AllConfigs`): K <= 3, K = 0 is null *)
ArgConfigs == ArgModes \X (0..3)
OtherConfigs == {<<"Distinct", 0>>, <<"Concat", 0>>}
AllConfigs == ArgConfigs \cup OtherConfigs

Lists == UNION {[1..m -> 0..(NItems - 1)] : m \in 0..MaxList}

Domain(m) ==
  CASE m \in ArgModes -> (0..(NArgs - 1)) \X (0..(NVals - 1))
    [] m = "Distinct" -> 0..(NElems - 1)
    [] m = "Concat" -> {<<"z", <<>> >>} \cup {<<"l", l>> : l \in Lists}

Bound(m) == CASE m \in ArgModes -> ArgSteps
              [] m = "Distinct" -> DistinctSteps
              [] m = "Concat" -> ConcatSteps

Emit ==
  Export => PrintT(<<"B", ToJson([m |-> mode, k |-> k, steps |-> steps,
                                  permitted |-> SetToSeq(Permitted(mode, k, steps))])>>)

Init == /\ \E c \in Configs : mode = c[1] /\ k = c[2]
        /\ steps = <<>>
        /\ kept = <<>>
        /\ phase = "run"
        /\ result = <<>>

Step(x) == /\ phase = "run"
           /\ Len(steps) < Bound(mode)
           /\ steps' = Append(steps, x)
           /\ kept' \in StepSet(mode, k, kept, x)
           /\ UNCHANGED <<mode, k, phase, result>>

Finalize == /\ phase = "run"
            /\ Emit
            /\ phase' = "done"
            /\ result' \in FinSet(mode, kept)
            /\ UNCHANGED <<mode, k, steps, kept>>

StepAny == \E x \in Domain(mode) : Step(x)

Next == Finalize \/ StepAny

Spec == Init /\ [][Next]_vars

-----------------------------------------------------------------------------
TypeOK == /\ phase \in {"run", "done"}
          /\ <<mode, k>> \in Configs
          /\ Len(steps) <= Bound(mode)
          /\ \A i \in 1..Len(steps) : steps[i] \in Domain(mode)

ResultPermitted == phase = "done" => result \in Permitted(mode, k, steps)

FinSubset == phase = "run" => FinSet(mode, kept) \subseteq Permitted(mode, k, steps)

KBest == phase = "run" => KeptIsKBest(mode, k, steps, kept)

(* every bag of inputs has exactly one sorted arrangement: comparing it     *)
(* with all its permutations covers every pair of arrangements of the bag  *)
OrderIndep == (phase = "run" /\ Len(steps) <= PermLen /\ mode # "Concat" /\ Sorted(mode, steps))
                 => OrderIndependent(mode, k, steps)

UniqueNoTies == (mode \in ArgModes /\ phase = "run" /\ NoTies(steps))
                  => /\ Cardinality(Permitted(mode, k, steps)) = 1
                     /\ FinSet(mode, kept) = Permitted(mode, k, steps)

(* BestFirst (constructive) = BestFirstDecl (declarative) on every value    *)
(* vector of the bounded domain.                                            *)
BestFirstLemma ==
  \A m \in ArgModes : \A n \in 0..ArgSteps : \A vs \in [1..n -> 0..(NVals - 1)] :
     BestFirst(m, vs) = BestFirstDecl(m, vs)
=============================================================================
