---------------------------- MODULE SqliteAggOps ----------------------------
(***************************************************************************)
(* The aggregating UDFs of the built-in SQLite engine (property C20),      *)
(* Appendix A.8 of DESIGN.md: pure definitions shared by the state machine *)
(* SqliteAgg and by the trace specification SqliteAggTrace.                *)
(*                                                                         *)
(* mode "ArgMin" / "ArgMax": the K-best machine.  A step carries <<a, v>>  *)
(*   (argument, value); k = 0 stands for `limit = null` (unbounded).       *)
(*   kept is a bag of <<v, a>>, represented as a sequence sorted by        *)
(*   (v, a) so that equal bags are equal states.                           *)
(* mode "Distinct": DistinctListAgg; a step carries an element; kept is    *)
(*   the set of elements seen (sorted sequence).                           *)
(* mode "Concat": ArrayConcatAgg; a step carries <<"l", list>> or          *)
(*   <<"z", <<>>>> (null); kept is the concatenation so far.               *)
(*                                                                         *)
(* Two levels:                                                             *)
(*   Permitted(mode, k, steps)   the *property*: which results finalize    *)
(*       may return after the inputs `steps`; for the Arg modes and        *)
(*       Distinct it depends on the bag / set of inputs only;              *)
(*   StepSet / FinSet            the *machine* of A.8 (implementation      *)
(*       shaped: a bounded bag with replacement of a worst element).       *)
(***************************************************************************)
EXTENDS Integers, Sequences, FiniteSets, TLC, SequencesExt

ArgModes == {"ArgMin", "ArgMax"}

(* x is strictly better than y *)
Better(mode, x, y) == IF mode = "ArgMin" THEN x < y ELSE x > y

(* ---- bags of pairs as sorted sequences ---------------------------------- *)
PLess(p, q) == p[1] < q[1] \/ (p[1] = q[1] /\ p[2] < q[2])

RECURSIVE Ins(_, _)
Ins(p, s) == IF s = <<>> THEN <<p>>
             ELSE IF PLess(s[1], p) THEN <<s[1]>> \o Ins(p, Tail(s))
             ELSE <<p>> \o s

Drop(s, i) == SubSeq(s, 1, i - 1) \o SubSeq(s, i + 1, Len(s))

RECURSIVE InsInt(_, _)
InsInt(e, s) == IF s = <<>> THEN <<e>>
                ELSE IF s[1] < e THEN <<s[1]>> \o InsInt(e, Tail(s))
                ELSE IF s[1] = e THEN s
                ELSE <<e>> \o s

RECURSIVE FlattenAll(_)
FlattenAll(ss) == IF ss = <<>> THEN <<>> ELSE ss[1] \o FlattenAll(Tail(ss))

Count(s, x) == Cardinality({i \in 1..Len(s) : s[i] = x})

(* Index sequences that list `vals` best first (ties in any order):        *)
(* repeatedly take a best remaining element, any of the tied ones.          *)
RECURSIVE BestFirstFrom(_, _, _)
BestFirstFrom(mode, vals, I) ==
  IF I = {} THEN {<<>>}
  ELSE UNION {{<<i>> \o t : t \in BestFirstFrom(mode, vals, I \ {i})} :
                i \in {j \in I : \A l \in I : ~Better(mode, vals[l], vals[j])}}
BestFirst(mode, vals) == BestFirstFrom(mode, vals, 1..Len(vals))

(* The same set, said declaratively: the permutations of the indices along  *)
(* which no later value is strictly better than an earlier one.  TLC checks *)
(* the equality for every value vector of the bounded domain (BestFirstLemma *)
(* in SqliteAgg).                                                            *)
BestFirstDecl(mode, vals) ==
  {p \in Permutations(1..Len(vals)) :
     \A i \in 1..Len(vals) : \A j \in 1..Len(vals) :
        i < j => ~Better(mode, vals[p[j]], vals[p[i]])}

(* ---- the property -------------------------------------------------------- *)
(* Arg modes: the arguments of the k best values (all when k = 0), best     *)
(* first; tied values may come in any arrangement, and when the tie         *)
(* straddles the boundary any of the tied inputs may be the ones kept.      *)
ArgPermitted(mode, k, steps) ==
  LET n == Len(steps)
      m == IF k = 0 \/ n < k THEN n ELSE k
  IN {[i \in 1..m |-> steps[p[i]][1]] :
        p \in BestFirst(mode, [i \in 1..n |-> steps[i][2]])}

(* Distinct: an enumeration, in any order, of the set of inputs.           *)
DistinctPermitted(steps) ==
  LET S == {steps[i] : i \in 1..Len(steps)}
      s == SetToSeq(S)
  IN {[i \in 1..Len(s) |-> s[p[i]]] : p \in Permutations(1..Len(s))}

(* Concat: the lists in arrival order, nulls skipped.                       *)
ConcatPermitted(steps) ==
  {FlattenAll([i \in 1..Len(steps) |->
                 IF steps[i][1] = "z" THEN <<>> ELSE steps[i][2]])}

Permitted(mode, k, steps) ==
  CASE mode \in ArgModes -> ArgPermitted(mode, k, steps)
    [] mode = "Distinct" -> DistinctPermitted(steps)
    [] mode = "Concat" -> ConcatPermitted(steps)

(* ---- the machine ---------------------------------------------------------- *)
WorstValue(mode, kept) ==
  CHOOSE w \in {kept[i][1] : i \in 1..Len(kept)} :
     \A i \in 1..Len(kept) : ~Better(mode, w, kept[i][1])

(* Step(arg, v): if |kept| < K add; else replace a worst element if v is    *)
(* strictly better (which of several equally bad ones is not prescribed).   *)
ArgStep(mode, k, kept, x) ==
  LET a == x[1]
      v == x[2]
  IN IF k = 0 \/ Len(kept) < k THEN {Ins(<<v, a>>, kept)}
     ELSE LET w == WorstValue(mode, kept)
          IN IF Better(mode, v, w)
             THEN {Ins(<<v, a>>, Drop(kept, i)) :
                     i \in {j \in 1..Len(kept) : kept[j][1] = w}}
             ELSE {kept}

ArgFin(mode, kept) ==
  {[i \in 1..Len(kept) |-> kept[p[i]][2]] :
     p \in BestFirst(mode, [i \in 1..Len(kept) |-> kept[i][1]])}

StepSet(mode, k, kept, x) ==
  CASE mode \in ArgModes -> ArgStep(mode, k, kept, x)
    [] mode = "Distinct" -> {InsInt(x, kept)}
    [] mode = "Concat" -> {IF x[1] = "z" THEN kept ELSE kept \o x[2]}

FinSet(mode, kept) ==
  CASE mode \in ArgModes -> ArgFin(mode, kept)
    [] mode = "Distinct" ->
         {[i \in 1..Len(kept) |-> kept[p[i]]] : p \in Permutations(1..Len(kept))}
    [] mode = "Concat" -> {kept}

(* ---- facts about the machine, stated on a state (steps, kept) ------------- *)
(* kept holds exactly the k best values (as a bag of values) and only       *)
(* pairs that were fed, each at most as often as it was fed.                *)
KeptIsKBest(mode, k, steps, kept) ==
  CASE mode \in ArgModes ->
         LET n == Len(steps)
             m == IF k = 0 \/ n < k THEN n ELSE k
             sv == [i \in 1..n |-> steps[i][2]]
             kv == [i \in 1..Len(kept) |-> kept[i][1]]
             ps == CHOOSE p \in BestFirst(mode, sv) : TRUE
             pk == CHOOSE p \in BestFirst(mode, kv) : TRUE
         IN /\ Len(kept) = m
            /\ \A i \in 1..m : kv[pk[i]] = sv[ps[i]]
            /\ \A i \in 1..Len(kept) :
                 Count(kept, kept[i]) <= Count(steps, <<kept[i][2], kept[i][1]>>)
    [] mode = "Distinct" ->
         /\ {kept[i] : i \in 1..Len(kept)} = {steps[i] : i \in 1..Len(steps)}
         /\ \A i \in 1..Len(kept) : Count(kept, kept[i]) = 1
    [] mode = "Concat" -> {kept} = ConcatPermitted(steps)

Permute(s, q) == [i \in 1..Len(s) |-> s[q[i]]]

(* The permitted results do not depend on the arrival order.                *)
Sorted(mode, steps) ==
  \A i \in 1..(Len(steps) - 1) :
     steps[i] = steps[i + 1] \/ (IF mode \in ArgModes THEN PLess(steps[i], steps[i + 1])
                                 ELSE steps[i] < steps[i + 1])
OrderIndependent(mode, k, steps) ==
  mode # "Concat" =>
    \A q \in Permutations(1..Len(steps)) :
       Permitted(mode, k, Permute(steps, q)) = Permitted(mode, k, steps)

(* Without ties the result is unique.                                       *)
NoTies(steps) ==
  \A i \in 1..Len(steps) : \A j \in 1..Len(steps) :
     i # j => steps[i][2] # steps[j][2]
=============================================================================
