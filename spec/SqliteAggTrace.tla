--------------------------- MODULE SqliteAggTrace ---------------------------
(***************************************************************************)
(* Judges recorded runs of the real UDF classes of common/sqlite3_logica.py *)
(* (ArgMin, ArgMax, DistinctListAgg, ArrayConcatAgg) - property C20.       *)
(*                                                                         *)
(* Input: ndjson ($TRACE_FILE), one replayed behaviour of SqliteAgg per    *)
(* line:                                                                   *)
(*   [id, m (mode), k, steps,                                              *)
(*    st  "ok" | "raised" | "shape"   what finalize() did,                 *)
(*    res the decoded result of finalize() (<<>> unless st = "ok"),        *)
(*    obs 1 iff the retained state was observable after every step,        *)
(*    kept <<retained bag after step 1, ..., after step n>> (obs = 1)]     *)
(*                                                                         *)
(* Verdict (property level): st = "ok" and res \in Permitted(m, k, steps). *)
(* Implementation-shaped (R1, informational): the recorded retained bags   *)
(* follow the machine of Appendix A.8, i.e.                                *)
(*   kept[i] \in StepSet(m, k, kept[i-1], steps[i])  and                   *)
(*   res \in FinSet(m, kept[n]);                                           *)
(* a line that fails only this is reported as drift.                       *)
(* One TLC state per line; failing / drifting lines print                  *)
(*   <<"V", ToJson([id, ok, drift, permitted])>>                           *)
(* and the POSTCONDITION prints the counters and requires that every line  *)
(* was judged and none failed.                                             *)
(***************************************************************************)
EXTENDS SqliteAggOps, Json, IOUtils, TLCExt

Lines == TLCGet(100)          \* the file is read once, in Init

ModeReg(m) == CASE m = "ArgMin" -> 11 [] m = "ArgMax" -> 12
                [] m = "Distinct" -> 13 [] m = "Concat" -> 14 [] OTHER -> 15
Registers == {1, 2, 3, 4, 5, 11, 12, 13, 14, 15}
Bump(r) == TLCSet(r, TLCGet(r) + 1)

FollowsMachine(c) ==
  LET n == Len(c.steps)
      Before(i) == IF i = 1 THEN <<>> ELSE c.kept[i - 1]
  IN /\ Len(c.kept) = n
     /\ \A i \in 1..n : c.kept[i] \in StepSet(c.m, c.k, Before(i), c.steps[i])
     /\ c.st = "ok" => c.res \in FinSet(c.m, IF n = 0 THEN <<>> ELSE c.kept[n])

VARIABLE i

Init == /\ i = 1
        /\ \A r \in Registers : TLCSet(r, 0)
        /\ TLCSet(100, ndJsonDeserialize(IOEnv.TRACE_FILE))

Next ==
  /\ i <= Len(Lines)
  /\ LET c == Lines[i]
         P == Permitted(c.m, c.k, c.steps)        \* the property
         ok == c.st = "ok" /\ c.res \in P
         drift == c.obs = 1 /\ ~FollowsMachine(c)  \* implementation shaped (R1)
     IN /\ Bump(2)
        /\ Bump(ModeReg(c.m))
        /\ IF c.obs = 1 THEN Bump(4) ELSE TRUE
        /\ IF ok THEN TRUE ELSE Bump(1)
        /\ IF drift THEN Bump(3) ELSE TRUE
        /\ IF Cardinality(P) > 1 THEN Bump(5) ELSE TRUE
        /\ IF ok /\ ~drift THEN TRUE
           ELSE PrintT(<<"V", ToJson([id |-> c.id, ok |-> ok, drift |-> drift,
                                       permitted |-> SetToSeq(P)])>>)
  /\ i' = i + 1

Spec == Init /\ [][Next]_i

Accepted ==
  /\ PrintT(<<"SUMMARY", ToJson([r \in Registers |-> TLCGet(r)])>>)
  /\ TLCGet(1) = 0
  /\ TLCGet(2) = Len(Lines)
=============================================================================
