SPECIFICATION Spec
CONSTANTS
  Configs <- AllConfigs
  ArgSteps = 4
  NArgs = 2
  NVals = 3
  DistinctSteps = 4
  NElems = 3
  ConcatSteps = 4
  MaxList = 1
  NItems = 2
  PermLen = 4
  Export = TRUE
INVARIANT TypeOK
INVARIANT ResultPermitted
INVARIANT FinSubset
INVARIANT KBest
INVARIANT OrderIndep
INVARIANT UniqueNoTies
CHECK_DEADLOCK FALSE
POSTCONDITION BestFirstLemma
