SPECIFICATION Spec
CONSTANTS
  Configs <- AllConfigs
  ArgSteps = 4
  ConcatSteps = 4
  DistinctSteps = 4
  MaxList = 1
  NArgs = 2
  NElems = 3
  NItems = 2
  NVals = 3
  PermLen = 4
  Export = TRUE
INVARIANT TypeOK
INVARIANT ResultPermitted
INVARIANT FinSubset
INVARIANT KBest
INVARIANT OrderIndep
INVARIANT UniqueNoTies
POSTCONDITION BestFirstLemma
CHECK_DEADLOCK FALSE
