SPECIFICATION Spec
CONSTANTS
  Configs <- ArgConfigs
  ArgSteps = 5
  ConcatSteps = 0
  DistinctSteps = 0
  MaxList = 0
  NArgs = 2
  NElems = 1
  NItems = 1
  NVals = 2
  PermLen = 5
  Export = TRUE
INVARIANT TypeOK
INVARIANT ResultPermitted
INVARIANT FinSubset
INVARIANT KBest
INVARIANT OrderIndep
INVARIANT UniqueNoTies
POSTCONDITION BestFirstLemma
CHECK_DEADLOCK FALSE
