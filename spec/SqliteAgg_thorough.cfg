SPECIFICATION Spec
CONSTANTS
  Configs <- AllConfigs
  ArgSteps = 5
  ConcatSteps = 4
  DistinctSteps = 5
  MaxList = 2
  NArgs = 2
  NElems = 4
  NItems = 2
  NVals = 3
  PermLen = 5
  Export = TRUE
INVARIANT TypeOK
INVARIANT ResultPermitted
INVARIANT FinSubset
INVARIANT KBest
INVARIANT OrderIndep
INVARIANT UniqueNoTies
POSTCONDITION BestFirstLemma
CHECK_DEADLOCK FALSE
