SPECIFICATION Spec
CONSTANTS
  Configs <- ArgConfigs
  ArgSteps = 4
  ConcatSteps = 0
  DistinctSteps = 0
  MaxList = 0
  NArgs = 3
  NElems = 1
  NItems = 1
  NVals = 3
  PermLen = 4
  Export = TRUE
INVARIANT TypeOK
INVARIANT ResultPermitted
INVARIANT FinSubset
INVARIANT KBest
INVARIANT OrderIndep
INVARIANT UniqueNoTies
POSTCONDITION BestFirstLemma
CHECK_DEADLOCK FALSE
