------------------------------- MODULE StrLit -------------------------------
(***************************************************************************)
(* String literals of the eight SQL dialects Logica compiles to, as        *)
(* lexical automata over sequences of Unicode code points (property C10).  *)
(*                                                                         *)
(*   Lex(d, text)          scan one literal token starting at text[1]      *)
(*   IsOneLiteral(d, text) the text is exactly one well-formed literal     *)
(*                         token of dialect d: lexing it from the opening  *)
(*                         quote ends exactly at Len(text)                 *)
(*   Decode(d, text)       the string that token denotes                   *)
(*   Enc(d, s)             a reference encoder (NOT the implementation's)  *)
(*                                                                         *)
(* Sources: the engines' documented lexical structure.                     *)
(*  sqlite     'x' ; a quote inside is written '' ; no backslash escapes   *)
(*             (SQLite "SQL As Understood By SQLite", literal values).     *)
(*  trino,     standard SQL: 'x', '' for a quote, no backslash escapes     *)
(*  presto     (Trino/Presto language reference, "String" type literals).  *)
(*  psql       standard_conforming_strings = on (default since 9.1):       *)
(*             'x' with '' only, backslash is an ordinary character;       *)
(*             E'x' escape strings: \b \f \n \r \t, \\ \' and, for any     *)
(*             other character c, \c = c  (PostgreSQL manual 4.1.2.1-2).   *)
(*  duckdb     'x' with '' ; E'x' escape strings as PostgreSQL (DuckDB     *)
(*             docs, "Literal Types / Escape String Literals").            *)
(*  bigquery   "x" or 'x'; backslash escapes \a \b \f \n \r \t \v \\ \?    *)
(*             \" \' \` \uhhhh; any other escape is an error; a raw        *)
(*             newline is not allowed in a one-line-quoted literal; a      *)
(*             doubled quote is NOT an escape (GoogleSQL lexical           *)
(*             structure, "String and bytes literals").                    *)
(*  clickhouse 'x'; \b \f \r \n \t \0 \a \v \\ \' are escapes and '' is a  *)
(*             quote (ClickHouse SQL syntax, "String" literals).  The      *)
(*             documentation says every other \c stands for the two        *)
(*             characters \c, the server drops the backslash for a few     *)
(*             (\" \` \/ \=) and reads \e, \x.. and \N specially: an       *)
(*             escape outside the documented list is treated here as       *)
(*             UNSPECIFIED - a well-formed literal must not rely on it.    *)
(*  databricks (Spark SQL) 'x' or "x"; backslash escapes \0 \b \n \r \t    *)
(*             \Z \\ \' \" \uhhhh; \% and \_ keep the backslash; any       *)
(*             other \c = c (Databricks SQL "STRING type", literals;       *)
(*             spark.sql.parser.escapedStringLiterals = false).  Doubled   *)
(*             quotes are not treated as an escape (conservative: older    *)
(*             runtimes read 'a''b' as two adjacent literals).             *)
(* Octal, \x and \U escapes are outside the modelled alphabet: a text      *)
(* using them is not accepted as well formed (conservative direction).     *)
(***************************************************************************)
EXTENDS Naturals, Sequences, FiniteSets, TLC

Dialects == {"sqlite", "duckdb", "psql", "bigquery",
             "trino", "presto", "clickhouse", "databricks"}

SQ  == 39      \* '
DQ  == 34      \* "
BSL == 92      \* \
NL  == 10
TAB == 9
BQT == 96      \* `

(* The special alphabet of C10:  ' " \ newline tab % { } $ # - / * ; ` ( )   *)
(* e-acute (Latin-1)  U+0414 (BMP, not Latin-1)  U+1D11E (astral)  a space *)
Alphabet == {39, 34, 92, 10, 9, 37, 123, 125, 36, 35, 45, 47, 42, 59, 96,
             40, 41, 233, 1044, 119070, 97, 32}
(* Characters that only occur in hand-picked idioms (%s %d {0} {1} ...),   *)
(* number-looking and keyword-looking flag values 02139 1.50 -0 +1 1e3     *)
(* 0x10 true null NULL), not in the exhaustive enumeration:                *)
(* digits . + s d e x t r u l n N U L U+2192                               *)
ExtraChars == (48..57) \cup {46, 43, 115, 100, 101, 120, 116, 114, 117, 108,
                             110, 78, 85, 76, 8594}

-----------------------------------------------------------------------------
(* Lexical profiles.  A profile says which quote closes the literal,       *)
(* whether a doubled quote denotes a quote, which backslash convention      *)
(* applies and whether a raw newline may appear inside.                    *)

Profile(q, dbl, bs, rawnl, skip) ==
  [q |-> q, dbl |-> dbl, bs |-> bs, rawnl |-> rawnl, skip |-> skip]

IsPrefix(p, t) == Len(p) <= Len(t) /\ SubSeq(t, 1, Len(p)) = p

(* FormsOf(d): the literal forms of dialect d, each with its opener.       *)
FormsOf(d) ==
  CASE d \in {"sqlite", "trino", "presto"} ->
         { [open |-> <<SQ>>, p |-> Profile(SQ, TRUE, "none", TRUE, 1)] }
    [] d \in {"psql", "duckdb"} ->
         { [open |-> <<SQ>>,      p |-> Profile(SQ, TRUE, "none", TRUE, 1)],
           [open |-> <<69, SQ>>,  p |-> Profile(SQ, TRUE, "pg", TRUE, 2)],
           [open |-> <<101, SQ>>, p |-> Profile(SQ, TRUE, "pg", TRUE, 2)] }
    [] d = "bigquery" ->
         { [open |-> <<SQ>>, p |-> Profile(SQ, FALSE, "bq", FALSE, 1)],
           [open |-> <<DQ>>, p |-> Profile(DQ, FALSE, "bq", FALSE, 1)] }
    [] d = "clickhouse" ->
         { [open |-> <<SQ>>, p |-> Profile(SQ, TRUE, "ch", TRUE, 1)] }
    [] d = "databricks" ->
         { [open |-> <<SQ>>, p |-> Profile(SQ, FALSE, "spark", TRUE, 1)],
           [open |-> <<DQ>>, p |-> Profile(DQ, FALSE, "spark", TRUE, 1)] }

(* The same as a table (a constant TLC evaluates once).                    *)
Forms == [d \in Dialects |-> FormsOf(d)]

-----------------------------------------------------------------------------
(* Backslash escapes.  Esc(mode, text, i) with text[i] = BSL returns        *)
(* [ok, len, val]: the escape is well formed, consumes len code points and  *)
(* denotes the sequence val.                                               *)

HexDigit(c) == (c >= 48 /\ c <= 57) \/ (c >= 65 /\ c <= 70) \/ (c >= 97 /\ c <= 102)
HexVal(c) == IF c <= 57 THEN c - 48 ELSE IF c <= 70 THEN c - 55 ELSE c - 87

Bad == [ok |-> FALSE, len |-> 0, val |-> <<>>]
One(v) == [ok |-> TRUE, len |-> 2, val |-> <<v>>]

Hex4(text, i) ==  \* \uhhhh at text[i..i+5]
  IF i + 5 <= Len(text) /\ \A k \in 2..5 : HexDigit(text[i + k])
  THEN [ok |-> TRUE, len |-> 6,
        val |-> << HexVal(text[i+2]) * 4096 + HexVal(text[i+3]) * 256
                   + HexVal(text[i+4]) * 16 + HexVal(text[i+5]) >>]
  ELSE Bad

Esc(mode, text, i) ==
  IF i + 1 > Len(text) THEN Bad
  ELSE LET c == text[i + 1] IN
    CASE mode = "pg" ->
           CASE c = 98 -> One(8)   [] c = 102 -> One(12) [] c = 110 -> One(10)
             [] c = 114 -> One(13) [] c = 116 -> One(9)
             [] c = 117 -> Hex4(text, i)
             [] c \in (48..55) \cup {120, 85} -> Bad      \* octal, \x, \U: unmodelled
             [] OTHER -> One(c)
      [] mode = "bq" ->
           CASE c = 97 -> One(7)   [] c = 98 -> One(8)   [] c = 102 -> One(12)
             [] c = 110 -> One(10) [] c = 114 -> One(13) [] c = 116 -> One(9)
             [] c = 118 -> One(11) [] c = BSL -> One(BSL) [] c = 63 -> One(63)
             [] c = DQ -> One(DQ)  [] c = SQ -> One(SQ)  [] c = BQT -> One(BQT)
             [] c = 117 -> Hex4(text, i)
             [] OTHER -> Bad                              \* illegal escape
      [] mode = "ch" ->
           CASE c = 98 -> One(8)   [] c = 102 -> One(12) [] c = 114 -> One(13)
             [] c = 110 -> One(10) [] c = 116 -> One(9)  [] c = 48 -> One(0)
             [] c = 97 -> One(7)   [] c = 118 -> One(11)
             [] c = BSL -> One(BSL) [] c = SQ -> One(SQ)
             [] OTHER -> Bad                              \* unspecified
      [] mode = "spark" ->
           CASE c = 48 -> One(0)   [] c = 98 -> One(8)   [] c = 110 -> One(10)
             [] c = 114 -> One(13) [] c = 116 -> One(9)  [] c = 90 -> One(26)
             [] c = 37 -> [ok |-> TRUE, len |-> 2, val |-> <<BSL, 37>>]
             [] c = 95 -> [ok |-> TRUE, len |-> 2, val |-> <<BSL, 95>>]
             [] c = 117 -> Hex4(text, i)
             [] c \in (49..55) \cup {85} -> Bad           \* octal, \U: unmodelled
             [] OTHER -> One(c)
      [] OTHER -> Bad

-----------------------------------------------------------------------------
(* The scanner.  Body scans from position i (just after the opener) and    *)
(* returns [ok, end, val]: end is the position of the closing quote.       *)

RECURSIVE Body(_, _, _, _)
Body(p, text, i, acc) ==
  IF i > Len(text) THEN [ok |-> FALSE, end |-> Len(text), val |-> acc, why |-> "unterminated"]
  ELSE LET c == text[i] IN
    IF c = p.q THEN
      IF p.dbl /\ i < Len(text) /\ text[i + 1] = p.q
      THEN Body(p, text, i + 2, Append(acc, p.q))
      ELSE [ok |-> TRUE, end |-> i, val |-> acc, why |-> "ok"]
    ELSE IF c = BSL /\ p.bs # "none" THEN
      LET e == Esc(p.bs, text, i) IN
        IF e.ok THEN Body(p, text, i + e.len, acc \o e.val)
        ELSE [ok |-> FALSE, end |-> i, val |-> acc, why |-> "bad-escape"]
    ELSE IF c = NL /\ ~p.rawnl
      THEN [ok |-> FALSE, end |-> i, val |-> acc, why |-> "raw-newline"]
    ELSE Body(p, text, i + 1, Append(acc, c))

NoLex == [ok |-> FALSE, end |-> 0, val |-> <<>>, why |-> "no-opening-quote"]

Lex(d, text) ==
  LET fs == {f \in Forms[d] : IsPrefix(f.open, text)} IN
    IF fs = {} THEN NoLex
    ELSE LET f == CHOOSE g \in fs : \A h \in fs : Len(g.open) >= Len(h.open)
         IN Body(f.p, text, f.p.skip + 1, <<>>)

IsOneLiteral(d, text) == LET r == Lex(d, text) IN r.ok /\ r.end = Len(text)
Decode(d, text) == Lex(d, text).val

(* Why a text is not one literal denoting s (for verdict messages).        *)
Verdict(d, text, s) ==
  LET r == Lex(d, text) IN
    IF ~r.ok THEN r.why
    ELSE IF r.end # Len(text) THEN "literal-ends-early"
    ELSE IF r.val # s THEN "decodes-to-other-string"
    ELSE "ok"

-----------------------------------------------------------------------------
(* Reference encoder: one way of writing s that each dialect must read     *)
(* back as s.  (The implementation is free to write literals differently.) *)

RECURSIVE MapCat(_, _)
MapCat(F(_), s) == IF s = <<>> THEN <<>> ELSE F(Head(s)) \o MapCat(F, Tail(s))

DoubleQuote(c) == IF c = SQ THEN <<SQ, SQ>> ELSE <<c>>
BqEsc(c) == CASE c = DQ -> <<BSL, DQ>> [] c = BSL -> <<BSL, BSL>>
              [] c = NL -> <<BSL, 110>> [] c = TAB -> <<BSL, 116>>
              [] OTHER -> <<c>>
BsQuote(c) == CASE c = SQ -> <<BSL, SQ>> [] c = BSL -> <<BSL, BSL>>
                [] OTHER -> <<c>>

Enc(d, s) ==
  CASE d \in {"sqlite", "trino", "presto", "psql", "duckdb"} ->
         <<SQ>> \o MapCat(DoubleQuote, s) \o <<SQ>>
    [] d = "bigquery"   -> <<DQ>> \o MapCat(BqEsc, s) \o <<DQ>>
    [] d = "clickhouse" -> <<SQ>> \o MapCat(BsQuote, s) \o <<SQ>>
    [] d = "databricks" -> <<SQ>> \o MapCat(BsQuote, s) \o <<SQ>>

(* The model-level lemma (checked for all strings over Alphabet up to the  *)
(* bound by StrLitLemma): the reference encoding is one literal and        *)
(* decodes to s; no proper prefix of it is already a complete literal.     *)
RoundTrip(d, s) ==
  LET t == Enc(d, s) IN IsOneLiteral(d, t) /\ Decode(d, t) = s

-----------------------------------------------------------------------------
(* Locating a literal inside a statement (compile-only dialects): the      *)
(* statement compiled for a plain marker string and the one compiled for   *)
(* s must agree outside the literal, and the differing middle must be one  *)
(* literal of the dialect denoting s.                                      *)

(* The marker's literal in the reference statement: mpos is where the       *)
(* marker's characters start; the literal starts one or two code points    *)
(* earlier (opening quote, possibly a prefix letter).                      *)
LitSpan(d, ref, mpos, marker) ==
  LET ok(o) == /\ mpos - o >= 1
               /\ LET r == Lex(d, SubSeq(ref, mpos - o, Len(ref)))
                  IN r.ok /\ r.val = marker
      cands == {o \in {1, 2} : ok(o)}
  IN IF cands = {} THEN [ok |-> FALSE, at |-> 0, len |-> 0]
     ELSE LET o == IF 2 \in cands THEN 2 ELSE 1
          IN [ok |-> TRUE, at |-> mpos - o,
              len |-> Lex(d, SubSeq(ref, mpos - o, Len(ref))).end]

SameShapeAt(d, ref, at, len, sql, s) ==
  LET pre == SubSeq(ref, 1, at - 1)
      suf == SubSeq(ref, at + len, Len(ref))
      mid == SubSeq(sql, at, Len(sql) - Len(suf))
  IN /\ Len(sql) >= Len(pre) + Len(suf) + 2
     /\ SubSeq(sql, 1, at - 1) = pre
     /\ SubSeq(sql, Len(sql) - Len(suf) + 1, Len(sql)) = suf
     /\ IsOneLiteral(d, mid)
     /\ Decode(d, mid) = s

SameShape(d, ref, mpos, sql, s, marker) ==
  LET sp == LitSpan(d, ref, mpos, marker)
  IN sp.ok /\ SameShapeAt(d, ref, sp.at, sp.len, sql, s)
=============================================================================
