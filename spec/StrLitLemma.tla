---------------------------- MODULE StrLitLemma ----------------------------
(***************************************************************************)
(* Model-level lemmas of C10, checked by TLC over ALL strings over the     *)
(* special alphabet up to length N (one TLC state per string):             *)
(*   - for each of the 8 dialects the reference encoding Enc(d, s) is      *)
(*     exactly one literal token and decodes to s;                         *)
(*   - every Logica literal form that can carry s renders to a literal     *)
(*     that decodes back to s, and every string is expressible in at       *)
(*     least one form;                                                     *)
(*   - a quote-only / backslash-only attack text is never one literal      *)
(*     (sanity of the automata: the lexers do reject).                     *)
(* The postcondition prints how many strings each Logica form can carry,   *)
(* which the harness uses to check the coverage of the recorded traces.    *)
(***************************************************************************)
EXTENDS StrLit, LLexStr, Json, TLCExt

CONSTANT N

VARIABLE s

Init == s = <<>>
Next == /\ Len(s) < N
        /\ \E c \in Alphabet : s' = Append(s, c)
Spec == Init /\ [][Next]_s

EncLemma == \A d \in Dialects : RoundTrip(d, s)
LogicaLemma == \A f \in LForms : LRoundTrip(f, s)
ExpressibleLemma == Expressible(s)

(* Sanity of the automata (a decoder accepting everything, or nothing,     *)
(* would be caught here): the raw text quote+s+quote is one literal        *)
(* denoting s when s has no character special to the dialect, and never    *)
(* when s contains the quote.                                              *)
Special(d) == CASE d \in {"sqlite", "trino", "presto", "psql", "duckdb"} -> {SQ}
                [] d = "clickhouse" -> {SQ, BSL}
                [] d = "databricks" -> {SQ, BSL}
                [] d = "bigquery" -> {SQ, BSL, NL}
RawLemma == \A d \in Dialects :
  LET t == <<SQ>> \o s \o <<SQ>>
      good == IsOneLiteral(d, t) /\ Decode(d, t) = s
  IN /\ (\A i \in 1..Len(s) : s[i] \notin Special(d)) => good
     /\ (\E i \in 1..Len(s) : s[i] = SQ) => ~good

AllStrings == UNION {[1..k -> Alphabet] : k \in 0..N}
Carry == [f \in LForms |-> Cardinality({x \in AllStrings : CanCarry(f, x)})]
Post == PrintT(<<"CARRY", ToJson([n |-> N, total |-> Cardinality(AllStrings),
                                  param |-> Cardinality({x \in AllStrings : HasParamForm(x)}),
                                  carry |-> Carry])>>)
=============================================================================
