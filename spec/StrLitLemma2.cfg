SPECIFICATION Spec
CONSTANT N = 2
INVARIANT EncLemma
INVARIANT LogicaLemma
INVARIANT ExpressibleLemma
INVARIANT RawLemma
POSTCONDITION Post
CHECK_DEADLOCK FALSE
