SPECIFICATION Spec
CONSTANT N = 3
INVARIANT EncLemma
INVARIANT LogicaLemma
INVARIANT ExpressibleLemma
INVARIANT RawLemma
POSTCONDITION Post
CHECK_DEADLOCK FALSE
