----------------------------- MODULE TypeAlgebra -----------------------------
(***************************************************************************)
(* The algebra of Logica's inferred types (property C16).                  *)
(*                                                                         *)
(* This module is pure definitions (no constants, no variables):           *)
(*   - the term language (Any, Singular, Sequential, Num, Str, Bool, Time, *)
(*     lists, open and closed records over a field alphabet),              *)
(*   - its MEANING: Member(g, t) <=> ground type g is an instance of t;    *)
(*     Inst(t, G) = {g \in G : Member(g, t)} over a finite ground universe *)
(*   - a structural Meet(a, b) on canonical terms (Bot when none),         *)
(*   - Canon(t): canonical form of a raw term as rendered by the code      *)
(*     (fields sorted, any clash marker anywhere => Bot).                  *)
(*                                                                         *)
(* TypeAlgebraLemmas.tla model-checks Meet against Inst over whole bounded *)
(* universes; TypeAlgebraTrace.tla judges recorded results of the real     *)
(* reference_algebra.Unify with Meet / Member.                             *)
(*                                                                         *)
(* Encoding (chosen so that TLC can compare any two terms: the tag is      *)
(* compared first, tuples with the same tag have the same shape):          *)
(*   <<"atom", name>>   <<"list", t>>   <<"rec", "open"|"closed", fs>>     *)
(*   fs = sequence of <<field, term>> (canonical: in AllFields order)      *)
(*   <<"bot", "bot">>   no common instance                                 *)
(*   <<"bad", t1, t2>>  the code's BadType (raw terms only)                *)
(*   <<"var", i>>       a shared reference (store cases only)              *)
(***************************************************************************)
EXTENDS Naturals, Sequences, FiniteSets, TLC

\* Field alphabet, in the code's rendering order (StrIntKey: positional
\* fields as %03d before named ones).
AllFields == <<"0", "1", "2", "a", "b", "c">>
FieldSet  == {AllFields[i] : i \in DOMAIN AllFields}

GroundAtoms == {"Num", "Str", "Bool", "Time"}
VagueAtoms  == {"Any", "Singular", "Sequential"}
AllAtoms    == GroundAtoms \cup VagueAtoms
Kinds       == {"open", "closed"}

Atom(n)     == <<"atom", n>>
List(t)     == <<"list", t>>
Rec(k, fs)  == <<"rec", k, fs>>
Bot         == <<"bot", "bot">>
StrT        == Atom("Str")
NumT        == Atom("Num")

IsBot(t)    == t[1] = "bot"
IsAtom(t)   == t[1] = "atom"
IsList(t)   == t[1] = "list"
IsRec(t)    == t[1] = "rec"
IsThe(t, n) == t[1] = "atom" /\ t[2] = n

FNames(fs)  == {fs[i][1] : i \in DOMAIN fs}
FGet(fs, f) == fs[CHOOSE i \in DOMAIN fs : fs[i][1] = f][2]
Ordered(S)  == SelectSeq(AllFields, LAMBDA f : f \in S)
MkFields(S, V(_)) ==
  LET o == Ordered(S) IN [i \in DOMAIN o |-> <<o[i], V(o[i])>>]

(***************************************************************************)
(* Bounded universes.                                                      *)
(***************************************************************************)
RECURSIVE Terms(_, _, _, _, _)
Terms(atoms, fields, width, kinds, d) ==
  LET base == {Atom(n) : n \in atoms} IN
  IF d = 0 THEN base
  ELSE LET sub   == Terms(atoms, fields, width, kinds, d - 1)
           fsets == {S \in SUBSET fields : Cardinality(S) <= width}
           recs  == UNION {
                      {Rec(k, MkFields(S, LAMBDA f : v[f])) :
                         v \in [S -> sub], k \in kinds} : S \in fsets}
       IN sub \cup {List(t) : t \in sub} \cup recs

\* Ground types: scalars, lists, closed records.  Records range over all
\* assignments of the fields `fields`, optionally extended by spare fields
\* (value Num) that no term of the universe mentions - they separate an open
\* record from the closed record with the same fields.  With rich = TRUE the
\* base also holds one list and one record, so that Any, Singular, Sequential
\* and the scalars are pairwise separated even at the deepest position.
RECURSIVE Ground(_, _, _, _, _)
Ground(scalars, fields, spare, rich, d) ==
  LET base == {Atom(n) : n \in scalars} IN
  IF d = 0
  THEN IF rich THEN base \cup {List(NumT), Rec("closed", <<>>)} ELSE base
  ELSE LET sub  == Ground(scalars, fields, spare, rich, d - 1)
           recs == UNION {
                     {Rec("closed", MkFields(S \cup E,
                            LAMBDA f : IF f \in E THEN NumT ELSE v[f])) :
                        v \in [S -> sub], E \in SUBSET spare} :
                     S \in SUBSET fields}
       IN base \cup {List(t) : t \in sub} \cup recs

RECURSIVE Depth(_)
Depth(t) ==
  CASE t[1] = "list" -> 1 + Depth(t[2])
    [] t[1] = "rec"  ->
         LET ds == {Depth(t[3][i][2]) : i \in DOMAIN t[3]}
         IN 1 + (IF ds = {} THEN 0 ELSE CHOOSE m \in ds : \A x \in ds : x <= m)
    [] t[1] = "bad"  -> 0
    [] OTHER -> 0

\* Raw term (as exchanged with the harness) is a term of the language.
RECURSIVE WellFormedV(_, _)
WellFormedV(t, nvars) ==
  CASE t[1] = "atom" -> t[2] \in AllAtoms
    [] t[1] = "var"  -> t[2] \in 1..nvars
    [] t[1] = "list" -> WellFormedV(t[2], nvars)
    [] t[1] = "rec"  ->
         /\ t[2] \in Kinds
         /\ \A i \in DOMAIN t[3] :
              /\ t[3][i][1] \in FieldSet
              /\ \A j \in DOMAIN t[3] : i # j => t[3][i][1] # t[3][j][1]
              /\ WellFormedV(t[3][i][2], nvars)
    [] OTHER -> FALSE
WellFormed(t) == WellFormedV(t, 0)

(***************************************************************************)
(* MEANING.  g is a ground type; t a canonical term.                       *)
(***************************************************************************)
RECURSIVE Member(_, _)
Member(g, t) ==
  CASE t[1] = "atom" ->
         CASE t[2] = "Any"        -> TRUE
           [] t[2] = "Singular"   -> g[1] # "list"
           [] t[2] = "Sequential" -> g[1] = "list" \/ IsThe(g, "Str")
           [] OTHER               -> IsThe(g, t[2])
    [] t[1] = "list" -> g[1] = "list" /\ Member(g[2], t[2])
    [] t[1] = "rec"  ->
         /\ g[1] = "rec"
         /\ FNames(t[3]) \subseteq FNames(g[3])
         /\ (t[2] = "closed" => FNames(g[3]) \subseteq FNames(t[3]))
         /\ \A f \in FNames(t[3]) : Member(FGet(g[3], f), FGet(t[3], f))
    [] OTHER -> FALSE      \* Bot (and anything carrying a clash) denotes nothing

Inst(t, G) == {g \in G : Member(g, t)}

(***************************************************************************)
(* Structural meet on canonical terms.                                     *)
(***************************************************************************)
AtomMeet(x, y) ==          \* neither is Any
  IF x = y THEN Atom(x)
  ELSE IF {x, y} = {"Singular", "Sequential"} THEN StrT
  ELSE IF x = "Singular" /\ y \in GroundAtoms THEN Atom(y)
  ELSE IF y = "Singular" /\ x \in GroundAtoms THEN Atom(x)
  ELSE IF {x, y} = {"Sequential", "Str"} THEN StrT
  ELSE Bot

AtomVs(x, t) ==            \* x is not Any; t is a list or a record
  IF x = "Singular" /\ IsRec(t) THEN t
  ELSE IF x = "Sequential" /\ IsList(t) THEN t
  ELSE Bot

RECURSIVE Meet(_, _)

RecMeet(a, b) ==
  LET na == FNames(a[3])
      nb == FNames(b[3])
      ok == CASE a[2] = "open" /\ b[2] = "open"     -> TRUE
              [] a[2] = "open" /\ b[2] = "closed"   -> na \subseteq nb
              [] a[2] = "closed" /\ b[2] = "open"   -> nb \subseteq na
              [] OTHER                               -> na = nb
      k  == IF a[2] = "open" /\ b[2] = "open" THEN "open" ELSE "closed"
      fs == MkFields(na \cup nb,
                     LAMBDA f : IF f \in na /\ f \in nb
                                THEN Meet(FGet(a[3], f), FGet(b[3], f))
                                ELSE IF f \in na THEN FGet(a[3], f)
                                ELSE FGet(b[3], f))
  IN IF ~ok \/ \E i \in DOMAIN fs : IsBot(fs[i][2]) THEN Bot ELSE Rec(k, fs)

Meet(a, b) ==
  IF IsBot(a) \/ IsBot(b) THEN Bot
  ELSE IF IsThe(a, "Any") THEN b
  ELSE IF IsThe(b, "Any") THEN a
  ELSE IF IsAtom(a) /\ IsAtom(b) THEN AtomMeet(a[2], b[2])
  ELSE IF IsAtom(a) THEN AtomVs(a[2], b)
  ELSE IF IsAtom(b) THEN AtomVs(b[2], a)
  ELSE IF IsList(a) /\ IsList(b) THEN
         LET m == Meet(a[2], b[2]) IN IF IsBot(m) THEN Bot ELSE List(m)
  ELSE IF IsRec(a) /\ IsRec(b) THEN RecMeet(a, b)
  ELSE Bot

Leq(s, t) == Meet(s, t) = s       \* s is at least as informative as t

(***************************************************************************)
(* Canonical form of a raw term (what the code rendered).                  *)
(***************************************************************************)
RECURSIVE Canon(_)
Canon(t) ==
  CASE t[1] = "atom" -> IF t[2] \in AllAtoms THEN t ELSE Bot
    [] t[1] = "var"  -> t
    [] t[1] = "crash" -> <<"crash", "crash">>   \* the code raised: equals nothing
    [] t[1] = "list" -> LET c == Canon(t[2]) IN IF IsBot(c) THEN Bot ELSE List(c)
    [] t[1] = "rec"  ->
         LET fs == MkFields(FNames(t[3]), LAMBDA f : Canon(FGet(t[3], f)))
         IN IF \E i \in DOMAIN fs : IsBot(fs[i][2]) THEN Bot ELSE Rec(t[2], fs)
    [] OTHER -> Bot        \* "bad" (BadType anywhere) and "bot"

(***************************************************************************)
(* What is "known" in a term: paths to ground types and to record fields.  *)
(* (clause "keeps every ground type and record field known on either      *)
(* side"; independent of Meet).                                            *)
(***************************************************************************)
RECURSIVE Known(_)
Known(t) ==
  CASE t[1] = "atom" -> IF t[2] \in GroundAtoms THEN {<<"=", t[2]>>} ELSE {}
    [] t[1] = "list" -> {<<"[]">> \o p : p \in Known(t[2])}
    [] t[1] = "rec"  ->
         UNION {{<<".", t[3][i][1]>>} \cup
                {<<".", t[3][i][1]>> \o p : p \in Known(t[3][i][2])} :
                i \in DOMAIN t[3]}
    [] OTHER -> {}

(***************************************************************************)
(* Two ground instances of an inhabited term, used by the trace spec for a *)
(* direct Member-level test of the code's result at any depth.  Low picks  *)
(* Num / Str and keeps records as they are; High picks a list / an empty   *)
(* record / a list and gives open records the spare field "c".             *)
(***************************************************************************)
RECURSIVE Low(_)
Low(t) ==
  CASE t[1] = "atom" ->
         CASE t[2] \in {"Any", "Singular"} -> NumT
           [] t[2] = "Sequential"          -> StrT
           [] OTHER                        -> t
    [] t[1] = "list" -> List(Low(t[2]))
    [] t[1] = "rec"  ->
         Rec("closed", [i \in DOMAIN t[3] |-> <<t[3][i][1], Low(t[3][i][2])>>])
    [] OTHER -> t
RECURSIVE High(_)
High(t) ==
  CASE t[1] = "atom" ->
         CASE t[2] = "Any"        -> List(StrT)
           [] t[2] = "Singular"   -> Rec("closed", <<>>)
           [] t[2] = "Sequential" -> List(NumT)
           [] OTHER               -> t
    [] t[1] = "list" -> List(High(t[2]))
    [] t[1] = "rec"  ->
         LET ns == FNames(t[3]) \cup (IF t[2] = "open" THEN {"c"} ELSE {})
         IN Rec("closed", MkFields(ns, LAMBDA f : IF f \in FNames(t[3])
                                                  THEN High(FGet(t[3], f))
                                                  ELSE NumT))
    [] OTHER -> t
Witnesses(t) == IF IsBot(t) THEN {} ELSE {Low(t), High(t)}

(***************************************************************************)
(* Shared references: terms may mention <<"var", i>>; Subst replaces the   *)
(* variables by terms (sigma is a sequence indexed by variable number).    *)
(***************************************************************************)
RECURSIVE Subst(_, _)
Subst(t, sigma) ==
  CASE t[1] = "var"  -> sigma[t[2]]
    [] t[1] = "list" -> List(Subst(t[2], sigma))
    [] t[1] = "rec"  ->
         Rec(t[2], [i \in DOMAIN t[3] |-> <<t[3][i][1], Subst(t[3][i][2], sigma)>>])
    [] OTHER -> t

(***************************************************************************)
(* The store: references 1..n, each DENOTING the value of its class.       *)
(* Unify merges two classes (value = Meet); CloseRecord closes the record  *)
(* a reference denotes - for every alias of it, whichever reference of the *)
(* class it is called on; UnifyRecordField meets the class value with the  *)
(* open record {f: v}.  st = [cls |-> representative of every reference,   *)
(* val |-> value denoted by every reference].                              *)
(*   op = <<"unify", i, j>> | <<"close", i>> | <<"field", i, f, v>>        *)
(*      | <<"unifyc", i, j>>                                               *)
(* A store may also hold one CONTAINER per reference i: the open record    *)
(* {a: ri, ...} (shape "field") or the list [ri] (shape "elem") whose      *)
(* component is the very reference ri.  "unifyc" unifies the containers of *)
(* i and j, which constrains exactly ri = rj; container i denotes          *)
(* Wrap(shape, value of i).                                                *)
(***************************************************************************)
Wrap(shape, v) ==
  IF IsBot(v) THEN Bot
  ELSE IF shape = "field" THEN Rec("open", <<<<"a", v>>>>)
  ELSE IF shape = "elem" THEN List(v)
  ELSE v
CloseTerm(t) == IF IsRec(t) THEN Rec("closed", t[3]) ELSE t

StoreInit(ts) == [cls |-> [k \in DOMAIN ts |-> k], val |-> ts]
ClassOf(st, i) == {k \in DOMAIN st.cls : st.cls[k] = st.cls[i]}
SetClass(st, members, v) ==
  LET rep == CHOOSE m \in members : \A k \in members : m <= k
  IN [cls |-> [k \in DOMAIN st.cls |-> IF k \in members THEN rep ELSE st.cls[k]],
      val |-> [k \in DOMAIN st.val |-> IF k \in members THEN v ELSE st.val[k]]]

StoreApply(st, op) ==
  CASE op[1] \in {"unify", "unifyc"} ->
         SetClass(st, ClassOf(st, op[2]) \cup ClassOf(st, op[3]),
                  Meet(st.val[op[2]], st.val[op[3]]))
    [] op[1] = "close" ->
         SetClass(st, ClassOf(st, op[2]), CloseTerm(st.val[op[2]]))
    [] op[1] = "field" ->
         SetClass(st, ClassOf(st, op[2]),
                  Meet(st.val[op[2]], Rec("open", <<<<op[3], op[4]>>>>)))

StoreClash(st) == \E k \in DOMAIN st.val : IsBot(st.val[k])
\* CloseRecord asserts that the reference denotes a record; nothing is claimed
\* about calls made after a clash.
OpEnabled(st, op) ==
  /\ ~StoreClash(st)
  /\ op[1] = "close" => IsRec(st.val[op[2]])
  /\ op[1] \in {"unify", "unifyc"} => op[2] # op[3]
=============================================================================
