-------------------------- MODULE TypeAlgebraLemmas --------------------------
(***************************************************************************)
(* Model-level lemmas of C16, checked by TLC over a whole bounded term     *)
(* universe U (cfg constants) against the semantic definition Inst over a  *)
(* finite ground universe G:                                               *)
(*   Inst(Meet(a,b)) = Inst(a) \cap Inst(b);  Meet = Bot <=> disjoint;     *)
(*   commutative, idempotent, absorbing, closed, keeps what is known;      *)
(*   distinct canonical terms denote distinct sets (so "equal up to        *)
(*   canonical form" is "denote the same type");                           *)
(*   on triples: associative / confluent, = triple intersection.           *)
(* States: phase 0 -> pick a (1) -> pick b (2) -> pick c (3, a,b,c in U3). *)
(* With Export = TRUE the universes are printed as JSON, and the harness   *)
(* replays exactly these terms into reference_algebra.Unify.               *)
(***************************************************************************)
EXTENDS TypeAlgebra, Json

CONSTANTS UAtoms, UFields, UWidth, UDepth,   \* the universe of pairs
          GSpare, GRich, GDepth,             \* shape of the ground universe
          TAtoms, TFields, TDepth,           \* the (smaller) universe of triples
          CheckFaithful, Export

U  == Terms(UAtoms, UFields, UWidth, Kinds, UDepth)
U3 == Terms(TAtoms, TFields, Cardinality(TFields), Kinds, TDepth)
G  == Ground(UAtoms \cap GroundAtoms, UFields, GSpare, GRich, GDepth)

InstTab == TLCEval([t \in U |-> Inst(t, G)])
InstOf(t) == IF IsBot(t) THEN {} ELSE IF t \in U THEN InstTab[t] ELSE Inst(t, G)

VARIABLES phase, a, b, c
vars == <<phase, a, b, c>>

Init ==
  /\ phase = 0 /\ a = Bot /\ b = Bot /\ c = Bot
  /\ Export => /\ \A t \in U : PrintT(<<"T", ToJson(t)>>)
               /\ \A t \in U3 : PrintT(<<"T3", ToJson(t)>>)
  /\ PrintT(<<"SIZES", Cardinality(U), Cardinality(U3), Cardinality(G)>>)

PickA == phase = 0 /\ a' \in U /\ phase' = 1 /\ UNCHANGED <<b, c>>
PickB == phase = 1 /\ b' \in U /\ phase' = 2 /\ UNCHANGED <<a, c>>
PickC == /\ phase = 2 /\ a \in U3 /\ b \in U3
         /\ c' \in U3 /\ phase' = 3 /\ UNCHANGED <<a, b>>
Next == PickA \/ PickB \/ PickC
Spec == Init /\ [][Next]_vars

M == Meet(a, b)

Inhabited          == phase = 1 => InstOf(a) # {}
Idempotent         == phase = 1 => Meet(a, a) = a
MeetIsIntersection == phase = 2 => InstOf(M) = InstOf(a) \cap InstOf(b)
BotIffDisjoint     == phase = 2 => (IsBot(M) <=> InstOf(a) \cap InstOf(b) = {})
Commutative        == phase = 2 => M = Meet(b, a)
Absorbing          == phase = 2 =>
                        /\ Meet(M, a) = M /\ Meet(M, b) = M
                        /\ Meet(a, M) = M /\ Meet(b, M) = M
ClosedUnderMeet    == phase = 2 =>
                        \/ IsBot(M)
                        \/ WellFormed(M) /\ Depth(M) <= UDepth /\ Canon(M) = M
KeepsKnown         == phase = 2 =>
                        (~IsBot(M) => Known(a) \cup Known(b) \subseteq Known(M))
Faithful           == (phase = 2 /\ CheckFaithful) =>
                        ((InstOf(a) = InstOf(b)) <=> (a = b))
Associative        == phase = 3 =>
                        /\ Meet(M, c) = Meet(a, Meet(b, c))
                        /\ Meet(M, c) = Meet(Meet(a, c), b)
                        /\ Meet(M, c) = Meet(Meet(c, b), a)
\* Pairwise compatible terms are jointly compatible (so a clash among three
\* constraints is always a clash between two of them, in some order).
PairwiseCompatible == phase = 3 =>
                        ((~IsBot(M) /\ ~IsBot(Meet(a, c)) /\ ~IsBot(Meet(b, c)))
                           => ~IsBot(Meet(M, c)))
TripleIntersection == phase = 3 =>
                        InstOf(Meet(M, c)) = InstOf(a) \cap InstOf(b) \cap InstOf(c)
=============================================================================
