\* Depth-3 universe over Any, Singular, Sequential, Num, Str and one
\* positional field (226 terms, all 51 076 pairs); rich ground universe of
\* depth 3 with a spare field; triples over the depth-2 sub-universe built
\* from Any, Num, Str (39 terms).
SPECIFICATION Spec
CONSTANTS
  UAtoms = {"Any", "Singular", "Sequential", "Num", "Str"}
  UFields = {"0"}
  UWidth = 1
  UDepth = 3
  GSpare = {"c"}
  GRich = TRUE
  GDepth = 3
  TAtoms = {"Any", "Num", "Str"}
  TFields = {"0"}
  TDepth = 2
  CheckFaithful = TRUE
  Export = TRUE
INVARIANT Inhabited
INVARIANT Idempotent
INVARIANT MeetIsIntersection
INVARIANT BotIffDisjoint
INVARIANT Commutative
INVARIANT Absorbing
INVARIANT ClosedUnderMeet
INVARIANT KeepsKnown
INVARIANT Faithful
INVARIANT Associative
INVARIANT TripleIntersection
INVARIANT PairwiseCompatible
CHECK_DEADLOCK FALSE
