\* Thorough tier.  Depth-2 universe over Any, Num, Str with a named and a
\* positional field (3 083 terms, all 9 505 889 pairs are too many for the
\* implementation replay, so Export = FALSE: lemma only); triples over the
\* depth-2 universe with one field and five atoms (73 terms).
SPECIFICATION Spec
CONSTANTS
  UAtoms = {"Any", "Num", "Str"}
  UFields = {"a", "0"}
  UWidth = 2
  UDepth = 2
  GSpare = {"c"}
  GRich = TRUE
  GDepth = 2
  TAtoms = {"Any", "Singular", "Sequential", "Num", "Str"}
  TFields = {"a"}
  TDepth = 2
  CheckFaithful = FALSE
  Export = FALSE
INVARIANT Inhabited
INVARIANT Idempotent
INVARIANT MeetIsIntersection
INVARIANT BotIffDisjoint
INVARIANT Commutative
INVARIANT Absorbing
INVARIANT ClosedUnderMeet
INVARIANT KeepsKnown
INVARIANT Faithful
INVARIANT Associative
INVARIANT TripleIntersection
CHECK_DEADLOCK FALSE
