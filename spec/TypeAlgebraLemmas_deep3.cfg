\* Thorough tier.  Depth-3 universe over all seven atoms and one named field
\* (306 terms, all 93 636 pairs); rich ground universe of depth 3 with a
\* spare field; triples over the depth-2 sub-universe built from five atoms
\* (73 terms, 389 017 triples; the harness samples them).
SPECIFICATION Spec
CONSTANTS
  UAtoms = {"Any", "Singular", "Sequential", "Num", "Str", "Bool", "Time"}
  UFields = {"a"}
  UWidth = 1
  UDepth = 3
  GSpare = {"c"}
  GRich = TRUE
  GDepth = 3
  TAtoms = {"Any", "Singular", "Sequential", "Num", "Str"}
  TFields = {"a"}
  TDepth = 2
  CheckFaithful = TRUE
  Export = TRUE
INVARIANT Inhabited
INVARIANT Idempotent
INVARIANT MeetIsIntersection
INVARIANT BotIffDisjoint
INVARIANT Commutative
INVARIANT Absorbing
INVARIANT ClosedUnderMeet
INVARIANT KeepsKnown
INVARIANT Faithful
INVARIANT Associative
INVARIANT TripleIntersection
INVARIANT PairwiseCompatible
CHECK_DEADLOCK FALSE
