\* Depth-2 universe over all seven atoms and one named field (99 terms, all
\* 9 801 pairs); rich ground universe of depth 2 with a spare field;
\* triples over the depth-1 sub-universe without Bool/Time (22 terms).
SPECIFICATION Spec
CONSTANTS
  UAtoms = {"Any", "Singular", "Sequential", "Num", "Str", "Bool", "Time"}
  UFields = {"a"}
  UWidth = 1
  UDepth = 2
  GSpare = {"c"}
  GRich = TRUE
  GDepth = 2
  TAtoms = {"Any", "Singular", "Sequential", "Num", "Str"}
  TFields = {"a"}
  TDepth = 1
  CheckFaithful = TRUE
  Export = TRUE
INVARIANT Inhabited
INVARIANT Idempotent
INVARIANT MeetIsIntersection
INVARIANT BotIffDisjoint
INVARIANT Commutative
INVARIANT Absorbing
INVARIANT ClosedUnderMeet
INVARIANT KeepsKnown
INVARIANT Faithful
INVARIANT Associative
INVARIANT TripleIntersection
INVARIANT PairwiseCompatible
CHECK_DEADLOCK FALSE
