\* Depth-1 universe over all seven atoms, a named and a positional field
\* (142 terms, all 20 164 pairs); rich ground universe of depth 1 with a spare field (108 types);
\* triples over the 30-term sub-universe with one field (27 000 triples).
SPECIFICATION Spec
CONSTANTS
  UAtoms = {"Any", "Singular", "Sequential", "Num", "Str", "Bool", "Time"}
  UFields = {"a", "0"}
  UWidth = 2
  UDepth = 1
  GSpare = {"c"}
  GRich = TRUE
  GDepth = 1
  TAtoms = {"Any", "Singular", "Sequential", "Num", "Str", "Bool", "Time"}
  TFields = {"a"}
  TDepth = 1
  CheckFaithful = TRUE
  Export = TRUE
INVARIANT Inhabited
INVARIANT Idempotent
INVARIANT MeetIsIntersection
INVARIANT BotIffDisjoint
INVARIANT Commutative
INVARIANT Absorbing
INVARIANT ClosedUnderMeet
INVARIANT KeepsKnown
INVARIANT Faithful
INVARIANT Associative
INVARIANT TripleIntersection
INVARIANT PairwiseCompatible
CHECK_DEADLOCK FALSE
