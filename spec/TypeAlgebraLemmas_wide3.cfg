\* Thorough tier.  Depth-1 universe over all seven atoms and three fields
\* (two named, one positional; 1 038 terms, all 1 077 444 pairs); rich ground
\* universe of depth 1 with a spare field (696 types); triples over the
\* depth-1 universe with fields a and 0 restricted to five atoms (82 terms,
\* 551 368 triples).
SPECIFICATION Spec
CONSTANTS
  UAtoms = {"Any", "Singular", "Sequential", "Num", "Str", "Bool", "Time"}
  UFields = {"a", "b", "0"}
  UWidth = 3
  UDepth = 1
  GSpare = {"c"}
  GRich = TRUE
  GDepth = 1
  TAtoms = {"Any", "Singular", "Sequential", "Num", "Str"}
  TFields = {"a", "0"}
  TDepth = 1
  CheckFaithful = TRUE
  Export = TRUE
INVARIANT Inhabited
INVARIANT Idempotent
INVARIANT MeetIsIntersection
INVARIANT BotIffDisjoint
INVARIANT Commutative
INVARIANT Absorbing
INVARIANT ClosedUnderMeet
INVARIANT KeepsKnown
INVARIANT Faithful
INVARIANT Associative
INVARIANT TripleIntersection
INVARIANT PairwiseCompatible
CHECK_DEADLOCK FALSE
