--------------------------- MODULE TypeAlgebraStore ---------------------------
(***************************************************************************)
(* Short operation sequences over a store of 2-3 references (C16):         *)
(* Unify (either argument order), CloseRecord on any reference - also on   *)
(* aliases and in classes built by successive Unify calls - and            *)
(* UnifyRecordField, in every interleaving of at most MaxOps operations.   *)
(* A history ends at MaxOps operations or at the first clash.              *)
(* With InitName = "atoms" the references start as Any / Singular /        *)
(* Sequential / ground scalars and every history of Unify calls (directly  *)
(* or through containers that hold the references as a field / element) is *)
(* exported: a later clash must reach every reference of the class.        *)
(* TLC checks the store model against the meaning (CloseSemantics,         *)
(* ClosedRejectsNewField, AliasesAgree) and, with Export = TRUE, prints    *)
(* every complete history that contains a CloseRecord; the harness replays *)
(* them into the real code and TypeAlgebraTrace judges the renderings      *)
(* after every step with the same StoreApply.                              *)
(***************************************************************************)
EXTENDS TypeAlgebra, Json

CONSTANTS NRefs, InitName, FieldOpsName, ShapeSet, MaxOps, Export

AnyT == Atom("Any")
OpenRec(fs) == Rec("open", fs)

Inits ==
  CASE InitName = "five"  -> {AnyT, OpenRec(<<>>), OpenRec(<<<<"a", AnyT>>>>),
                              OpenRec(<<<<"a", NumT>>>>),
                              Rec("closed", <<<<"a", NumT>>>>)}
    [] InitName = "three" -> {AnyT, OpenRec(<<>>), OpenRec(<<<<"a", AnyT>>>>)}
    [] InitName = "two"   -> {AnyT, OpenRec(<<<<"a", AnyT>>>>)}
    \* abstract references meeting ground scalars (union-find linking)
    [] InitName = "atoms" -> {AnyT, Atom("Singular"), Atom("Sequential"), NumT, StrT}
    [] InitName = "atoms3" -> {AnyT, NumT, StrT}

FieldOps ==
  CASE FieldOpsName = "three" -> {<<"a", NumT>>, <<"a", StrT>>, <<"b", NumT>>}
    [] FieldOpsName = "two"   -> {<<"a", StrT>>, <<"b", NumT>>}
    [] FieldOpsName = "none"  -> {}

G == Ground({"Num", "Str"}, {"a", "b"}, {"c"}, TRUE, 1)

VARIABLES init, shape, ops, st
vars == <<init, shape, ops, st>>

Init == /\ init \in [1..NRefs -> Inits]
        /\ shape \in ShapeSet
        /\ ops = <<>>
        /\ st = StoreInit(init)

HasClose(os) == \E k \in DOMAIN os : os[k][1] = "close"
Complete(os, s) == Len(os) = MaxOps \/ StoreClash(s)

Do(op) ==
  /\ Len(ops) < MaxOps
  /\ OpEnabled(st, op)
  /\ ops' = Append(ops, op)
  /\ st' = StoreApply(st, op)
  /\ init' = init /\ shape' = shape
  /\ (Export /\ Complete(ops', st') /\ (HasClose(ops') \/ FieldOpsName = "none")) =>
       PrintT(<<"SEQ", ToJson([init |-> [k \in 1..NRefs |-> init[k]],
                                shape |-> shape, ops |-> ops'])>>)

DoUnify == \E i, j \in 1..NRefs : Do(<<"unify", i, j>>)
\* the same constraint placed through the containers {a: ri, ...} / [ri]
DoUnifyC == shape # "plain" /\ \E i, j \in 1..NRefs : Do(<<"unifyc", i, j>>)
DoClose == \E i \in 1..NRefs : Do(<<"close", i>>)
DoField == \E i \in 1..NRefs : \E fo \in FieldOps : Do(<<"field", i, fo[1], fo[2]>>)
Next == DoUnify \/ DoUnifyC \/ DoClose \/ DoField
Spec == Init /\ [][Next]_vars

\* The model is consistent: references of one class denote one value.
AliasesAgree ==
  \A i, j \in 1..NRefs : st.cls[i] = st.cls[j] => st.val[i] = st.val[j]

\* Closing = keeping exactly the instances that have no further field.
CloseSemantics ==
  \A k \in 1..NRefs :
    IsRec(st.val[k]) =>
      Inst(CloseTerm(st.val[k]), G) =
        {g \in Inst(st.val[k], G) : FNames(g[3]) = FNames(st.val[k][3])}

\* A closed record clashes with every constraint that addresses another field
\* and accepts every constraint on a field it has (with a compatible value).
ClosedRejectsNewField ==
  \A k \in 1..NRefs :
    (IsRec(st.val[k]) /\ st.val[k][2] = "closed") =>
      \A f \in {"a", "b"} :
        IsBot(Meet(st.val[k], OpenRec(<<<<f, AnyT>>>>))) <=> f \notin FNames(st.val[k][3])
=============================================================================
