\* Three references starting as Any / Singular / Sequential / Num / Str, plain or held by containers; every history of <= 2 Unify calls.
SPECIFICATION Spec
CONSTANTS
  NRefs = 3
  InitName = "atoms"
  FieldOpsName = "none"
  ShapeSet = {"plain", "field", "elem"}
  MaxOps = 2
  Export = TRUE
INVARIANT AliasesAgree
INVARIANT CloseSemantics
INVARIANT ClosedRejectsNewField
CHECK_DEADLOCK FALSE
