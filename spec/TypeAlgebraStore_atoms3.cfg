\* Thorough tier.  Three references starting as Any / Num / Str, plain or held by containers; every history of <= 3 Unify calls (sampled by the harness).
SPECIFICATION Spec
CONSTANTS
  NRefs = 3
  InitName = "atoms3"
  FieldOpsName = "none"
  ShapeSet = {"plain", "field", "elem"}
  MaxOps = 3
  Export = TRUE
INVARIANT AliasesAgree
INVARIANT CloseSemantics
INVARIANT ClosedRejectsNewField
CHECK_DEADLOCK FALSE
