\* Quick tier.  Three references, two initial terms, 15 operations, histories of <= 3 operations.
SPECIFICATION Spec
CONSTANTS
  NRefs = 3
  InitName = "two"
  FieldOpsName = "two"
  ShapeSet = {"plain"}
  MaxOps = 3
  Export = TRUE
INVARIANT AliasesAgree
INVARIANT CloseSemantics
INVARIANT ClosedRejectsNewField
CHECK_DEADLOCK FALSE
