\* Thorough tier.  Three references, two initial terms, histories of <= 4 operations (sampled by the harness).
SPECIFICATION Spec
CONSTANTS
  NRefs = 3
  InitName = "two"
  FieldOpsName = "two"
  ShapeSet = {"plain"}
  MaxOps = 4
  Export = TRUE
INVARIANT AliasesAgree
INVARIANT CloseSemantics
INVARIANT ClosedRejectsNewField
CHECK_DEADLOCK FALSE
