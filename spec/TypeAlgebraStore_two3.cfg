\* Two references, five initial terms, 10 operations, histories of <= 3 operations.
SPECIFICATION Spec
CONSTANTS
  NRefs = 2
  InitName = "five"
  FieldOpsName = "three"
  ShapeSet = {"plain"}
  MaxOps = 3
  Export = TRUE
INVARIANT AliasesAgree
INVARIANT CloseSemantics
INVARIANT ClosedRejectsNewField
CHECK_DEADLOCK FALSE
