\* Thorough tier.  Two references, five initial terms, histories of <= 4 operations.
SPECIFICATION Spec
CONSTANTS
  NRefs = 2
  InitName = "five"
  FieldOpsName = "three"
  ShapeSet = {"plain"}
  MaxOps = 4
  Export = TRUE
INVARIANT AliasesAgree
INVARIANT CloseSemantics
INVARIANT ClosedRejectsNewField
CHECK_DEADLOCK FALSE
