--------------------------- MODULE TypeAlgebraTrace ---------------------------
(***************************************************************************)
(* Judges recorded results of the real reference_algebra.Unify (C16).      *)
(*                                                                         *)
(* Input: ndjson ($TRACE_FILE).                                            *)
(*   line 1:  [terms |-> <<raw term, ...>>]   table of all terms mentioned *)
(*   line n:  one case                                                     *)
(*     [id, k, t |-> <<table indices of the input terms>>, runs |-> <<run>>*)
(*      (+ bounds, pd for k = "shared"; f for k = "field"; x for "pair":   *)
(*       1 when the terms are not from a universe of TypeAlgebraLemmas)]   *)
(*     run = [o |-> <<order...>>, obs |-> <<step, ...>>]                   *)
(*     step = <<table index of VeryConcreteType of every input reference   *)
(*              after that call>>                                          *)
(* kinds                                                                   *)
(*   "pair"   Unify(t[o1], t[o2]) twice; obs after each call               *)
(*   "triple" Unify(t[o1], t[o2]); Unify(t[o_via], t[o3]); both again      *)
(*   "elem"   UnifyListElement(t1, t2) twice                               *)
(*   "field"  UnifyRecordField(t1, f, t2) twice                            *)
(*   "shared" as "pair", but t1, t2 mention <<"var", i>>: one reference    *)
(*            object per variable (bounds[i] is its initial target)        *)
(*   "seq"    ops |-> <<operation, ...>> of TypeAlgebraStore on references  *)
(*            t1..tn: Unify, CloseRecord, UnifyRecordField; obs per step   *)
(* One TLC state per case.  A failing case prints                          *)
(*   <<"V", ToJson([id, fails |-> <<[clause, exp, got], ...>>])>>          *)
(* and the POSTCONDITION requires that none failed and every case was      *)
(* judged; it prints the per-construct counters measured by the spec.      *)
(***************************************************************************)
EXTENDS TypeAlgebra, Json, IOUtils, TLCExt

\* The file is read once (Init) and kept in TLC registers:
\*   100: the lines, 101: the raw term table, 102: its canonical forms,
\*   103 / 104: the ground pools.
Lines    == TLCGet(100)
Tab      == TLCGet(101)
NCases   == Len(Lines) - 1
MaxDepth == 3
T(j)     == TLCGet(102)[j]

\* Ground pools for the brute-force meaning of a store with shared references.
Pool(d) == IF d = 1 THEN Ground({"Num", "Str"}, {"a", "0"}, {}, FALSE, 1)
                    ELSE Ground({"Num", "Str"}, {"a", "0"}, {}, FALSE, 2)
Pool1 == TLCGet(103)
Pool2 == TLCGet(104)

Fail(ok, clause, exp, got) ==
  IF ok THEN <<>> ELSE <<[clause |-> clause, exp |-> exp, got |-> got]>>

InputsOk(c, nvars) ==
  \A i \in DOMAIN c.t : /\ WellFormedV(Tab[c.t[i]], nvars)
                        /\ Depth(Tab[c.t[i]]) <= MaxDepth

R(run, s, k) == T(run.obs[s][k])
Step(run, s) == [k \in DOMAIN run.obs[s] |-> R(run, s, k)]

(***************************************************************************)
(* Why two canonical terms have no common instance (coverage only).        *)
(***************************************************************************)
RECURSIVE Why(_, _)
Why(a, b) ==
  IF IsAtom(a) /\ IsAtom(b) THEN
    IF a[2] \in GroundAtoms /\ b[2] \in GroundAtoms THEN 11 ELSE 12
  ELSE IF (IsAtom(a) /\ IsList(b)) \/ (IsList(a) /\ IsAtom(b)) THEN
    IF IsThe(a, "Singular") \/ IsThe(b, "Singular") THEN 13 ELSE 14
  ELSE IF (IsAtom(a) /\ IsRec(b)) \/ (IsRec(a) /\ IsAtom(b)) THEN 15
  ELSE IF (IsList(a) /\ IsRec(b)) \/ (IsRec(a) /\ IsList(b)) THEN 16
  ELSE IF IsList(a) THEN Why(a[2], b[2])
  ELSE
    LET na == FNames(a[3])
        nb == FNames(b[3])
    IN IF a[2] = "closed" /\ b[2] = "closed" /\ na # nb THEN 17
       ELSE IF a[2] = "open" /\ b[2] = "closed" /\ ~(na \subseteq nb) THEN 18
       ELSE IF a[2] = "closed" /\ b[2] = "open" /\ ~(nb \subseteq na) THEN 18
       ELSE LET f == CHOOSE f \in na \cap nb :
                       IsBot(Meet(FGet(a[3], f), FGet(b[3], f)))
            IN Why(FGet(a[3], f), FGet(b[3], f)) + 10   \* 2x: nested in a field
WhyIdx(a, b) == LET w == Why(a, b) IN IF w > 28 THEN 20 + (w % 10) ELSE w

Bump(i)  == TLCSet(i, TLCGet(i) + 1)
BumpIf(cond, i) == IF cond THEN Bump(i) ELSE TRUE

(***************************************************************************)
(* pair                                                                    *)
(***************************************************************************)
\* kn: what is known on either side; wit: witnesses of the two inputs.
\* extra: the case is outside the universes of TypeAlgebraLemmas (c.x = 1), so
\* the result is also tested directly against Member and Known; inside them
\* Meet is already proved to be the intersection and to keep what is known.
JudgePairRun(a, b, m, kn, wit, extra, run) ==
  LET ra1 == R(run, 1, 1)
      rb1 == R(run, 1, 2)
      WitOk(r) == \A w \in wit \cup Witnesses(r) :
                    (Member(w, a) /\ Member(w, b)) <=> Member(w, r)
  IN   Fail(ra1 = rb1, "sides_equal", ra1, rb1)
    \o Fail(IsBot(ra1) <=> IsBot(m), "clash_iff_no_common_instance", m, ra1)
    \o Fail(ra1 = m /\ rb1 = m, "equals_meet", m, <<ra1, rb1>>)
    \o (IF ~extra THEN <<>>
        ELSE Fail(IsBot(m) \/ IsBot(ra1) \/ kn \subseteq Known(ra1),
                  "keeps_known", kn \ Known(ra1), ra1)
          \o Fail(WitOk(ra1) /\ (rb1 = ra1 \/ WitOk(rb1)),
                  "instances_are_the_common_instances", m, <<ra1, rb1>>))
    \o Fail(run.obs[2] = run.obs[1] \/ Step(run, 2) = Step(run, 1),
            "idempotent", Step(run, 1), Step(run, 2))

JudgePair(c) ==
  LET a   == T(c.t[1])
      b   == T(c.t[2])
      m   == Meet(a, b)
      kn  == Known(a) \cup Known(b)
      wit == Witnesses(a) \cup Witnesses(b)
  IN   Fail(InputsOk(c, 0), "input_wellformed", "", "")
    \o JudgePairRun(a, b, m, kn, wit, c.x = 1, c.runs[1])
    \o (IF c.runs[2].obs = c.runs[1].obs THEN <<>>   \* same record, same verdict
        ELSE JudgePairRun(a, b, m, kn, wit, c.x = 1, c.runs[2]))
    \o Fail(Step(c.runs[1], 1) = Step(c.runs[2], 1), "symmetric",
            Step(c.runs[1], 1), Step(c.runs[2], 1))

CountPair(c) ==
  LET a == T(c.t[1])
      b == T(c.t[2])
      m == Meet(a, b)
  IN /\ Bump(3)
     /\ IF IsBot(m) THEN Bump(4) /\ Bump(WhyIdx(a, b))
        ELSE BumpIf(m # a /\ m # b, 5)      \* result is new information
     /\ BumpIf(IsRec(a) /\ IsRec(b) /\ a[2] # b[2], 6)   \* open vs closed
     /\ BumpIf(Depth(a) = 3 \/ Depth(b) = 3, 7)

(***************************************************************************)
(* triple                                                                  *)
(***************************************************************************)
JudgeTripleRun(tt, run) ==
  LET p   == run.o
      x   == tt[p[1]]
      y   == tt[p[2]]
      z   == tt[p[3]]
      via == p[p[4]]
      m12 == Meet(x, y)
      m   == Meet(m12, z)
  IN   Fail(R(run, 1, p[1]) = m12 /\ R(run, 1, p[2]) = m12, "first_equals_meet",
            m12, Step(run, 1))
    \o Fail(R(run, 1, p[3]) = z, "third_untouched", z, R(run, 1, p[3]))
    \o (IF IsBot(m12) THEN <<>>
        ELSE (IF IsBot(m)
              THEN Fail(IsBot(R(run, 2, via)) /\ IsBot(R(run, 2, p[3])),
                        "second_clash_iff_no_common_instance", m, Step(run, 2))
              ELSE Fail(\A k \in 1..3 : R(run, 2, k) = m, "second_equals_meet3",
                        m, Step(run, 2)))
             \o Fail((run.obs[3] = run.obs[2] /\ run.obs[4] = run.obs[2])
                       \/ (Step(run, 3) = Step(run, 2) /\ Step(run, 4) = Step(run, 2)),
                     "idempotent", Step(run, 2), <<Step(run, 3), Step(run, 4)>>))

RECURSIVE JudgeRuns(_, _, _)
JudgeRuns(tt, runs, i) ==
  IF i > Len(runs) THEN <<>>
  ELSE JudgeTripleRun(tt, runs[i]) \o JudgeRuns(tt, runs, i + 1)

JudgeTriple(c) ==
  LET tt == [k \in 1..3 |-> T(c.t[k])]
      m  == Meet(Meet(tt[1], tt[2]), tt[3])
  IN   Fail(InputsOk(c, 0), "input_wellformed", "", "")
    \o JudgeRuns(tt, c.runs, 1)
    \o Fail(IsBot(m) \/ \A i \in DOMAIN c.runs :
                           Step(c.runs[i], 2) = Step(c.runs[1], 2),
            "order_independent", m,
            [i \in DOMAIN c.runs |-> Step(c.runs[i], 2)])

\* A clash recorded by the first call that no rendering shows after the
\* second call (not claimed by the property; counted, never a failure).
ClashLost(tt, run) ==
  /\ IsBot(Meet(tt[run.o[1]], tt[run.o[2]]))
  /\ \A k \in 1..3 : ~IsBot(R(run, 2, k))

CountTriple(c) ==
  LET tt == [k \in 1..3 |-> T(c.t[k])]
      m  == Meet(Meet(tt[1], tt[2]), tt[3])
  IN /\ Bump(30)
     /\ TLCSet(31, TLCGet(31) + Len(c.runs))
     /\ BumpIf(~IsBot(m), 32)
     /\ BumpIf(~IsBot(m) /\ m # tt[1] /\ m # tt[2] /\ m # tt[3], 33)
     /\ BumpIf(\E i \in DOMAIN c.runs : ClashLost(tt, c.runs[i]), 34)
     /\ BumpIf(IsBot(m) /\ \A i, j \in 1..3 : ~IsBot(Meet(tt[i], tt[j])), 35)

(***************************************************************************)
(* elem / field: the two derived constraints                               *)
(***************************************************************************)
ExpElem(l, e) ==
  LET e1 == Meet(e, Atom("Singular"))
  IN IF IsBot(e1) THEN Bot ELSE Meet(l, List(e1))

ExpField(r, f, v) == Meet(r, Rec("open", <<<<f, v>>>>))

\* The repeated call is a new constraint between the (already unified) first
\* reference and a fresh term; it must change nothing when there was no clash.
\* After a clash its inputs carry clash markers, which is outside the
\* property's quantifier: only counted (DerivedClashLost).
JudgeDerived(c, exp, part) ==   \* part: what the second reference must show
  LET run == c.runs[1]
      r1  == R(run, 1, 1)
      r2  == R(run, 1, 2)
  IN   Fail(InputsOk(c, 0), "input_wellformed", "", "")
    \o (IF IsBot(exp)
        THEN Fail(IsBot(r1) \/ IsBot(r2), "clash_iff_no_common_instance", exp,
                  <<r1, r2>>)
        ELSE Fail(r1 = exp /\ r2 = part, "equals_meet", <<exp, part>>, <<r1, r2>>)
             \o Fail(run.obs[2] = run.obs[1] \/ Step(run, 2) = Step(run, 1),
                     "idempotent", Step(run, 1), Step(run, 2)))

DerivedClashLost(c, exp) ==
  /\ IsBot(exp)
  /\ ~IsBot(R(c.runs[1], 2, 1)) /\ ~IsBot(R(c.runs[1], 2, 2))

JudgeElem(c) ==
  LET exp == ExpElem(T(c.t[1]), T(c.t[2]))
  IN JudgeDerived(c, exp, IF IsBot(exp) THEN Bot ELSE exp[2])

JudgeField(c) ==
  LET exp == ExpField(T(c.t[1]), c.f, T(c.t[2]))
  IN JudgeDerived(c, exp, IF IsBot(exp) THEN Bot ELSE FGet(exp[3], c.f))

CountElem(c)  ==
  LET exp == ExpElem(T(c.t[1]), T(c.t[2]))
  IN Bump(40) /\ BumpIf(IsBot(exp), 41) /\ BumpIf(DerivedClashLost(c, exp), 44)
     /\ BumpIf(~IsBot(exp) /\ exp # T(c.t[1]), 45)
CountField(c) ==
  LET exp == ExpField(T(c.t[1]), c.f, T(c.t[2]))
  IN Bump(42) /\ BumpIf(IsBot(exp), 43) /\ BumpIf(DerivedClashLost(c, exp), 44)
     /\ BumpIf(~IsBot(exp) /\ exp # T(c.t[1]), 46)

(***************************************************************************)
(* shared references: the meaning of the store, by brute force.            *)
(* A solution assigns a ground type (from the pool, within its bound) to   *)
(* every shared reference such that the two sides have a common instance.  *)
(***************************************************************************)
Sols(c) ==
  LET a   == T(c.t[1])
      b   == T(c.t[2])
      n   == Len(c.bounds)
      pl  == IF c.pd = 1 THEN Pool1 ELSE Pool2
  IN {s \in [1..n -> pl] :
        /\ \A i \in 1..n : Member(s[i], T(c.bounds[i]))
        /\ ~IsBot(Meet(Subst(a, s), Subst(b, s)))}

JudgeSharedRun(c, sols, run) ==
  LET a   == T(c.t[1])
      b   == T(c.t[2])
      bs  == [i \in DOMAIN c.bounds |-> T(c.bounds[i])]
      up  == Meet(Subst(a, bs), Subst(b, bs))    \* forgetting the sharing
      ra1 == R(run, 1, 1)
      rb1 == R(run, 1, 2)
  IN   Fail(ra1 = rb1, "sides_equal", ra1, rb1)
    \o Fail(IsBot(ra1) <=> sols = {}, "clash_iff_no_common_instance",
            Cardinality(sols), ra1)
    \o Fail(IsBot(ra1) \/ \A s \in sols :
                            Leq(Meet(Subst(a, s), Subst(b, s)), ra1),
            "keeps_every_common_instance", "", ra1)
    \o Fail(IsBot(ra1) \/ Leq(ra1, up), "keeps_known", up, ra1)
    \o Fail(run.obs[2] = run.obs[1] \/ Step(run, 2) = Step(run, 1),
            "idempotent", Step(run, 1), Step(run, 2))

JudgeShared(c) ==
  LET sols == Sols(c)
      n    == Len(c.bounds)
  IN   Fail(/\ \A i \in DOMAIN c.t : WellFormedV(Tab[c.t[i]], n)
                                     /\ Depth(Tab[c.t[i]]) <= c.pd
            /\ \A i \in DOMAIN c.bounds : IsAtom(T(c.bounds[i]))
            /\ c.pd \in {1, 2},
            "input_wellformed", "", "")
    \o JudgeSharedRun(c, sols, c.runs[1])
    \o JudgeSharedRun(c, sols, c.runs[2])
    \o Fail(Step(c.runs[1], 1) = Step(c.runs[2], 1), "symmetric",
            Step(c.runs[1], 1), Step(c.runs[2], 1))

CountShared(c) ==
  LET a   == T(c.t[1])
      b   == T(c.t[2])
      bs  == [i \in DOMAIN c.bounds |-> T(c.bounds[i])]
      up  == Meet(Subst(a, bs), Subst(b, bs))
      r   == R(c.runs[1], 1, 1)
  IN /\ Bump(50)
     /\ BumpIf(IsBot(r), 51)
     /\ BumpIf(IsBot(r) /\ ~IsBot(up), 52)    \* clash only because of sharing
     /\ BumpIf(~IsBot(r) /\ r # up, 53)       \* sharing refined the result

(***************************************************************************)
(* seq: an operation sequence TLC enumerated in TypeAlgebraStore, replayed *)
(* on real references.  c.t = initial terms, c.ops = the operations (the   *)
(* value of a "field" operation is a raw term), obs[s] = renderings of all *)
(* references after operation s.  After every clash-free step every        *)
(* reference (and every container that holds one) must render the value    *)
(* its class denotes in the store model (so aliases render identically,    *)
(* whichever of them was closed); at the first clash the references the    *)
(* call was made on must show it AND so must every other reference of the  *)
(* clashed class, while the other classes keep their values                *)
(* (seq_class_agrees); nothing is claimed afterwards.                      *)
(***************************************************************************)
SeqOp(op) == IF op[1] = "field" THEN <<"field", op[2], op[3], Canon(op[4])>> ELSE op

IsGroundScalar(v) == IsAtom(v) /\ v[2] \in GroundAtoms
NRefsOf(c) == Len(c.t)
\* obs[s] = renderings of the references 1..n, then (shape # "plain") of the
\* containers 1..n that hold them.
GotRef(c, s, k) == R(c.runs[1], s, k)
GotBox(c, s, k) == R(c.runs[1], s, NRefsOf(c) + k)

\* Localisation only (rule R1).  Unify of two references that both denote the
\* same ground scalar returns without linking them (known finding
\* F-C16-equal-ground-scalars-not-linked), so a later clash on one of them is
\* not shown by the other (nor by what follows it).  gg = pairs unified while
\* both denoted a ground scalar.
GroundPairs(st, gg, op) ==
  IF op[1] \in {"unify", "unifyc"}
     /\ IsGroundScalar(st.val[op[2]]) /\ IsGroundScalar(st.val[op[3]])
  THEN gg \cup {<<op[2], op[3]>>} ELSE gg

RECURSIVE JudgeSeqFrom(_, _, _, _)
JudgeSeqFrom(c, st, gg, s) ==
  IF s > Len(c.ops) THEN <<>>
  ELSE
    LET op    == SeqOp(c.ops[s])
        nx    == StoreApply(st, op)
        n     == NRefsOf(c)
        boxed == c.shape # "plain"
        want  == [k \in 1..n |-> nx.val[k]]
        wantb == [k \in 1..n |-> Wrap(c.shape, nx.val[k])]
        got   == [k \in 1..n |-> GotRef(c, s, k)]
        gotb  == [k \in 1..n |-> IF boxed THEN GotBox(c, s, k) ELSE wantb[k]]
        agree == got = want /\ gotb = wantb
        \* the references the call was made on
        onOk  == IF op[1] = "unifyc" THEN IsBot(gotb[op[2]]) /\ IsBot(gotb[op[3]])
                 ELSE IsBot(got[op[2]]) /\ (op[1] = "unify" => IsBot(got[op[3]]))
        stale == {k \in 1..n : IsBot(want[k]) /\ ~IsBot(got[k])}
        staleb == {k \in 1..n : IsBot(wantb[k]) /\ ~IsBot(gotb[k])}
        \* every difference is a reference (or container) of the clashed class
        \* that shows no clash, and that class holds a pair the code left
        \* unlinked
        known == /\ \A k \in 1..n : got[k] = want[k] \/ k \in stale
                 /\ \A k \in 1..n : gotb[k] = wantb[k] \/ k \in staleb
                 /\ \E pr \in gg : IsBot(want[pr[1]]) /\ IsBot(want[pr[2]])
    IN IF ~OpEnabled(st, op) \/ (op[1] = "unifyc" /\ ~boxed)
       THEN Fail(FALSE, "input_wellformed", s, op)
       ELSE IF StoreClash(nx)
       THEN Fail(onOk, "seq_clash_iff_no_common_instance", <<s, want>>, <<got, gotb>>)
            \o Fail(agree, "seq_class_agrees",
                    [step |-> s, want |-> want, wantc |-> wantb,
                     deviation |-> IF known THEN "unlinked_equal_ground_scalars"
                                            ELSE "none"],
                    <<got, gotb>>)
       ELSE Fail(agree, "seq_step_equals_store", <<s, want, wantb>>, <<got, gotb>>)
            \o JudgeSeqFrom(c, nx, GroundPairs(st, gg, op), s + 1)

JudgeSeq(c) ==
  Fail(/\ InputsOk(c, 0)
       /\ Len(c.runs[1].obs) = Len(c.ops)
       /\ c.shape \in {"plain", "field", "elem"}
       /\ \A s \in DOMAIN c.runs[1].obs :
            Len(c.runs[1].obs[s]) = (IF c.shape = "plain" THEN 1 ELSE 2) * Len(c.t),
       "input_wellformed", "", "")
  \o JudgeSeqFrom(c, StoreInit([k \in DOMAIN c.t |-> T(c.t[k])]),
                  {}, 1)

\* The shape "an abstract reference met a ground scalar, later a member of
\* that class clashes": vg = pairs unified while one denoted Any / Singular /
\* Sequential and the other a ground scalar.
RECURSIVE VagueGroundThenClash(_, _, _, _)
VagueGroundThenClash(c, st, s, vg) ==
  IF s > Len(c.ops) \/ StoreClash(st) THEN FALSE
  ELSE
    LET op == SeqOp(c.ops[s])
        nx == StoreApply(st, op)
        un == op[1] \in {"unify", "unifyc"}
        hit == un /\ ( (IsAtom(st.val[op[2]]) /\ st.val[op[2]][2] \in VagueAtoms
                         /\ IsGroundScalar(st.val[op[3]]))
                     \/ (IsAtom(st.val[op[3]]) /\ st.val[op[3]][2] \in VagueAtoms
                         /\ IsGroundScalar(st.val[op[2]])) )
    IN IF StoreClash(nx)
       THEN \E pr \in vg : pr[1] \in ClassOf(nx, op[2]) /\ pr[2] \in ClassOf(nx, op[2])
       ELSE VagueGroundThenClash(c, nx, s + 1,
                                 IF hit THEN vg \cup {<<op[2], op[3]>>} ELSE vg)

\* Coverage of the sequences (walks the same store model).
RECURSIVE SeqFacts(_, _, _, _)
SeqFacts(c, st, s, acc) ==     \* acc = <<close on alias, close in class of 3,
                               \*         clash against a closed record, clash>>
  IF s > Len(c.ops) \/ StoreClash(st) THEN acc
  ELSE
    LET op == SeqOp(c.ops[s])
        nx == StoreApply(st, op)
        sz == Cardinality(ClassOf(st, op[2]))
        cl == IsRec(st.val[op[2]]) /\ st.val[op[2]][2] = "closed"
        c2 == op[1] = "unify" /\ IsRec(st.val[op[3]]) /\ st.val[op[3]][2] = "closed"
    IN SeqFacts(c, nx, s + 1,
         <<acc[1] \/ (op[1] = "close" /\ sz >= 2),
           acc[2] \/ (op[1] = "close" /\ sz >= 3),
           acc[3] \/ (StoreClash(nx) /\ (cl \/ c2)),
           acc[4] \/ StoreClash(nx)>>)

CountSeq(c) ==
  LET f == SeqFacts(c, StoreInit([k \in DOMAIN c.t |-> T(c.t[k])]), 1,
                    <<FALSE, FALSE, FALSE, FALSE>>)
  IN Bump(55) /\ BumpIf(f[1], 56) /\ BumpIf(f[2], 57) /\ BumpIf(f[3], 58)
     /\ BumpIf(~f[4], 59) /\ BumpIf(Len(c.t) = 3, 60)
     /\ LET vgc == VagueGroundThenClash(
                     c, StoreInit([k \in DOMAIN c.t |-> T(c.t[k])]), 1, {})
        IN /\ BumpIf(vgc /\ c.shape = "plain", 61)
           /\ BumpIf(vgc /\ c.shape = "field", 62)
           /\ BumpIf(vgc /\ c.shape = "elem", 63)
           /\ BumpIf(vgc /\ \E k \in DOMAIN c.ops : c.ops[k][1] = "unifyc", 64)

(***************************************************************************)
Judge(c) ==
  CASE c.k = "pair"   -> JudgePair(c)
    [] c.k = "triple" -> JudgeTriple(c)
    [] c.k = "elem"   -> JudgeElem(c)
    [] c.k = "field"  -> JudgeField(c)
    [] c.k = "shared" -> JudgeShared(c)
    [] c.k = "seq"    -> JudgeSeq(c)
    [] OTHER          -> Fail(FALSE, "unknown_kind", "", c.k)

Count(c) ==
  CASE c.k = "pair"   -> CountPair(c)
    [] c.k = "triple" -> CountTriple(c)
    [] c.k = "elem"   -> CountElem(c)
    [] c.k = "field"  -> CountField(c)
    [] c.k = "shared" -> CountShared(c)
    [] c.k = "seq"    -> CountSeq(c)
    [] OTHER          -> TRUE

Registers == 1..70

VARIABLE i

Init ==
  /\ i = 1
  /\ \A r \in Registers : TLCSet(r, 0)
  /\ LET lines == ndJsonDeserialize(IOEnv.TRACE_FILE)
         tab   == lines[1].terms
     IN /\ TLCSet(100, lines)
        /\ TLCSet(101, tab)
        /\ TLCSet(102, TLCEval([j \in DOMAIN tab |-> Canon(tab[j])]))
        /\ LET shared == \E j \in 2..Len(lines) : lines[j].k = "shared"
           IN /\ TLCSet(103, IF shared THEN TLCEval(Pool(1)) ELSE {})
              /\ TLCSet(104, IF shared THEN TLCEval(Pool(2)) ELSE {})

Next ==
  /\ i <= NCases
  /\ LET c     == Lines[i + 1]
         fails == Judge(c)
     IN /\ Bump(2)
        /\ Count(c)
        /\ IF Len(fails) = 0 THEN TRUE
           ELSE /\ Bump(1)
                /\ PrintT(<<"V", ToJson([id |-> c.id, fails |-> fails])>>)
  /\ i' = i + 1

Spec == Init /\ [][Next]_i

Accepted ==
  /\ PrintT(<<"SUMMARY", ToJson([r \in Registers |-> TLCGet(r)])>>)
  /\ TLCGet(1) = 0
  /\ TLCGet(2) = NCases
=============================================================================
