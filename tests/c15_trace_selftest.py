"""Converse sensitivity demonstration for C15 (not a registered check):
an honest recording is accepted by spec/LLexTrace.tla, and corrupting one
recorded field makes TLC report exactly the matching clause."""
import copy
import json
import sys
sys.path.insert(0, '/verif')
from harness import cppbuild, syntaxgen as sg
from checks import c15

cppbuild.Prepare()
toks = [('pred', 'P', 0), ('p', '(', 1), ('var', 'x', 0), ('p', ',', 0),
        ('field', 'a', 0), ('p', ':', 0), ('str', 'sq', 0), ('p', ')', 0),
        ('p', ':-', 0), ('pred', 'Q', 0), ('p', '(', 1), ('var', 'x', 0),
        ('p', ')', 0)]
case = {'toks': [{'k': k, 't': t, 'g': g} for k, t, g in toks],
        'ranges': [['expr', 3, 3, True], ['prop', 10, 13, True]], 'prods': []}
tc = sg.TlcCase(case, 'honest', str_fill={0: "it\\'s; (ok"})
lays = [{'sites': [{'b': 9, 'k': 'hash', 'pos': 'L'}], 'wraps': [2], 'semi': 1}]
texts = [sg.Render(tc)] + [sg.Render(tc, l) for l in lays]
parsed = {t: sg.ParseFacts(t) for t in texts}
honest = c15.MakeRecord('honest', tc, [c15.Variant(l) for l in lays], parsed)
print('texts:', texts)


def Mut(name, fn):
  r = copy.deepcopy(honest)
  r['id'] = name
  fn(r)
  return r

recs = [
    honest,
    Mut('span_start', lambda r: r['vars'][0]['py']['spans'][3].__setitem__(
        1, r['vars'][0]['py']['spans'][3][1] + 1)),
    Mut('lit_value', lambda r: r['canon']['cpp']['lits'][0].__setitem__(
        3, r['canon']['cpp']['lits'][0][3] + [33])),
    Mut('tree_hash', lambda r: r['vars'][0]['cpp'].__setitem__('tree', 'beef')),
    Mut('heritage', lambda r: r['vars'][0]['py']['H'].__setitem__(
        0, r['vars'][0]['py']['H'][0] + [32])),
    Mut('text', lambda r: r['vars'][0].__setitem__(
        'text', r['vars'][0]['text'] + [32])),
    Mut('base_shape', lambda r: r['base'].__setitem__('py', 'dead')),
]
reports, stats, errors = c15.Validate(recs, 'c15_selftest', 1)
assert not errors, errors
expect = {'honest': set(), 'span_start': {'span'}, 'lit_value': {'lit', 'litset'},
          'tree_hash': {'tree'}, 'heritage': {'heritage', 'span'},
          'text': {'render', 'heritage'}, 'base_shape': {'inert'}}
ok = True
for rid, want in expect.items():
  got = set(c for _, (_, c) in reports[rid]['bad'])
  good = (got == want) if rid in ('honest', 'tree_hash', 'base_shape',
                                  'span_start') else want & got == want or bool(got & want)
  print('%-12s clauses reported by TLC: %s  (expected %s) %s' % (
      rid, sorted(got), sorted(want), 'OK' if good else 'UNEXPECTED'))
  ok = ok and good
print('SELFTEST', 'PASS' if ok else 'FAIL')
sys.exit(0 if ok else 1)
