"""Hand-written end-to-end smoke test of LSem + harness (not a registered check)."""
import json, sys
sys.path.insert(0, '/verif')
from harness.ir import *
from harness import semcheck, ir

x, y, z, w = Var('x'), Var('y'), Var('z'), Var('w')
E = Pred('E', [Rule([('col0', Lit(N(1)), ''), ('col1', Lit(N(2)), '')]),
               Rule([('col0', Lit(N(2)), ''), ('col1', Lit(N(3)), '')]),
               Rule([('col0', Lit(N(2)), ''), ('col1', Lit(N(3)), '')])])
T = Pred('T', [Rule([('col0', Lit(S('a')), ''), ('n', Lit(N(1)), '')]),
               Rule([('col0', Lit(S('b')), ''), ('n', Lit(N(5)), '')])])
P = Pred('P', [Rule([('col0', x, ''), ('col1', z, '')],
                    [Atom('E', [('col0', x), ('col1', y)]), Atom('E', [('col0', y), ('col1', z)])])])
Q = Pred('Q', [Rule([('col0', x, ''), ('logica_value', y, 'Sum')], [Atom('E', [('col0', x), ('col1', y)])], True)])
R = Pred('R', [Rule([('col0', x, ''), ('s', Op('++', w, Lit(S('z'))), ''), ('v', Op('+', x, Op('*', y, Lit(N(2)))), '')],
                    [Atom('E', [('col0', x), ('col1', y)]), Atom('T', [('col0', w), ('n', z)]),
                     Or([[Cmp(Op('<', x, z))], [Unify(x, Lit(N(2)))]])])])
Dbl = Pred('Dbl', [Rule([('col0', x, ''), ('logica_value', Op('*', x, Lit(N(2))), '')])], inline=True)
F = Pred('F', [Rule([('col0', x, ''), ('logica_value', y, '')], [Atom('E', [('col0', x), ('col1', y)])])])
U = Pred('U', [Rule([('col0', x, ''), ('d', PCall('Dbl', [('col0', PCall('F', [('col0', x)]))]), '')],
                    [Inc(x, ListE([Lit(N(1)), Lit(N(2)), Lit(N(7))]))])])
NG = Pred('NG', [Rule([('col0', x, '')], [Atom('E', [('col0', x), ('col1', y)]), Neg([Atom('E', [('col0', y), ('col1', z)])])])])
AG = Pred('AG', [Rule([('col0', x, ''), ('c', AggE('Sum', z, [Atom('E', [('col0', x), ('col1', z)])]), ''),
                       ('m', AggE('Max', w, [Atom('E', [('col0', w), ('col1', Lit(N(9)))])]), '')],
                      [Atom('T', [('col0', y), ('n', x)])])])
LS = Pred('LS', [Rule([('col0', x, ''), ('l', y, 'List'), ('mx', y, 'Max')], [Atom('E', [('col0', x), ('col1', y)])], True)])
RC = Pred('RC', [Rule([('col0', Sub(z, 'a'), ''), ('col1', Op('Size', w), ''), ('e', Op('Element', w, Lit(N(1))), ''),
                        ('i', If(Op('>', x, Lit(N(1))), Lit(S('big')), Lit(S('small'))), '')],
                      [Atom('E', [('col0', x), ('col1', y)]), Unify(z, RecE([('a', x), ('b', y)])), Unify(w, ListE([x, y, Lit(N(4))]))])])
prog = Prog([E, T, P, Q, R, Dbl, F, U, NG, AG, LS, RC])
case = {'id': 'smoke1', 'stages': True, 'prog': prog, 'query': ['E', 'T', 'P', 'Q', 'R', 'F', 'U', 'NG', 'AG', 'LS', 'RC']}
print(ir.RenderProgram(prog))
res = semcheck.RunImpl([case])[0]
for p, r in res['preds'].items():
  print(p, r.get('status'), r.get('cols'), [list(map(lambda kv: (kv[0], impl_untag(kv[1])) if False else kv, row.items())) for row in r.get('rows', [])][:2] if r.get('status') == 'ok' else r)
line = semcheck.TraceLine(case, res)
verdicts, stats, errors = semcheck.Validate([line], 'smoke')
for k, v in verdicts.items(): print(k, v[0], v[1][:200] if not v[0] else '')
print(stats); 
for e in errors: print(e[2])
