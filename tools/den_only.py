#!/venv/bin/python
"""Evaluates Den for the generated cases of a check without running the
implementation (debug aid): reports TLC errors.  usage: den_only.py C01 [seed]"""
import importlib, json, os, sys
sys.path.insert(0, '/verif')
os.environ['VERIF_SEED'] = sys.argv[2] if len(sys.argv) > 2 else '0'
from harness import semcheck, ir
mod = importlib.import_module('checks.' + sys.argv[1].lower())
import harness.proggen as pg
pg.Cases = lambda *a, **k: ([], 0, 0, 0)
cases = mod.Cases('quick')
lines = []
for c in cases:
  lines.append({'id': c['id'], 'prog': semcheck.NormProg(c['prog']), 'dev': [], 'base': [], 'qmap': [], 'bobs': [],
                'obs': [{'p': p, 'ordered': False, 'rows': []} for p in c['query']]})
v, st, errs = semcheck.Validate(lines, 'denonly')
print(len(lines), 'cases', len(v), 'verdicts', len(errs), 'errors')
for e in errs:
  print(e[0]); 
  import re
  m = re.search(r'Reason:.*', e[2], re.S)
  print((m.group(0) if m else e[2])[:800])
