#!/venv/bin/python
"""Runs the named directed families (harness/families.py) k times through the
semantic machinery as C01-style cases (Den vs observed rows, stages) - a quick
way to try a new family on the unchanged tree or (LOGICA_REPO) on a patched one.

  tools/fam_try.py <k> <family-name>...      (evidence goes to a scratch dir)"""
import os, sys, tempfile
sys.path.insert(0, os.path.dirname(os.path.dirname(os.path.abspath(__file__))))
os.environ.setdefault('VERIF_EVIDENCE_DIR', tempfile.mkdtemp(prefix='famtry_'))
from harness import common, families, semrun
k = int(sys.argv[1])
names = sys.argv[2:]
allf = dict(families.SEM_FAMILIES + families.C08_FAMILIES + families.C04_FAMILIES + families.C18_FAMILIES)
rng = common.Rng('famtry')
cases = []
for j in range(k):
  for n in names:
    prog, query, feats = allf[n](rng)
    cases.append({'id': '%s%d' % (n, j), 'prog': prog, 'query': query, 'stages': True,
                  'meta': {'features': feats}})
rc = semrun.StandardRun('C01', 'quick', cases, [], rule='fam_try', assumptions=[])
print('rc', rc, 'evidence', os.environ['VERIF_EVIDENCE_DIR'])
sys.exit(rc)
