#!/venv/bin/python
"""Mutation analysis of the semantic checks' program corpus (a measurement of
sensitivity, not a check): how many single-point changes of the compiler change
what the real pipeline returns on the programs the quick checks generate?

  tools/mutbattery.py build [--per N]          corpus from checks.cNN.Cases('quick') -> build/mut/corpus.json
  tools/mutbattery.py run <repo> [--baseline F] [--out F] [--cover F]
                                               run the corpus on a tree; with a baseline stop at the first difference
  tools/mutbattery.py sites                    list mutation sites (covered lines only) -> build/mut/sites.json
  tools/mutbattery.py mutate [--workers N] [--limit N] [--files a,b]
                                               run every mutant; results -> build/mut/results.jsonl

On the unchanged tree every program's rows were judged against LSem!Den by TLC
(that is what the checks do); a mutant that changes any observed table or
diagnostic of the corpus therefore makes a quick check disagree with Den, i.e.
it is detected.  Survivors are either equivalent mutants or holes of the
generators - they are triaged by hand into new directed families.
"""
import argparse
import ast
import hashlib
import json
import os
import random
import shutil
import subprocess
import sys
import time

VERIF = os.path.dirname(os.path.dirname(os.path.abspath(__file__)))
sys.path.insert(0, VERIF)
MUT = os.path.join(VERIF, 'build', 'mut')
CHECKS = ['c01', 'c02', 'c03', 'c04', 'c07', 'c08', 'c11', 'c18', 'c19']
TARGETS = ['compiler/universe.py', 'compiler/rule_translate.py',
           'compiler/expr_translate.py', 'compiler/functors.py',
           'compiler/dialects.py',
           'compiler/dialect_libraries/recursion_library.py',
           'parser_py/parse.py', 'common/concertina_lib.py']


# ---- corpus ---------------------------------------------------------------------

def Build(per):
  import importlib
  from harness import ir
  os.makedirs(MUT, exist_ok=True)
  items, seen = [], set()
  for c in CHECKS:
    mod = importlib.import_module('checks.' + c)
    cases = mod.Cases('quick')
    def Directed(x):
      feats = (x.get('meta') or {}).get('features') or []
      return any(f.startswith('fam_') or f.startswith('directed') for f in feats)
    fam = [x for x in cases if Directed(x)]
    rnd = [x for x in cases if not Directed(x)]
    random.Random(1).shuffle(rnd)
    random.Random(1).shuffle(fam)
    for case in fam[:4 * per] + rnd[:per]:
      if 'prog' not in case and 'text' not in case:
        continue
      text = case.get('text') or ir.RenderProgram(case['prog'])
      query = list(case.get('query') or [])
      key = hashlib.sha1(json.dumps([text, query, bool(case.get('workflow'))]).encode()).hexdigest()
      if key in seen or not query:
        continue
      seen.add(key)
      items.append({'id': '%s/%s' % (c, case['id']), 'text': text, 'query': query,
                    'workflow': bool(case.get('workflow')),
                    'ordered': list(case.get('ordered') or []),
                    'user_flags': case.get('user_flags')})
    print(c, len(cases), 'cases ->', len(items), 'items so far', flush=True)
  random.Random(2).shuffle(items)
  json.dump(items, open(os.path.join(MUT, 'corpus.json'), 'w'))
  print('corpus:', len(items))


def Digest(item, res):
  out = {'status': res.get('status'), 'cls': res.get('cls'), 'stage': res.get('stage')}
  preds = {}
  for p, r in (res.get('preds') or {}).items():
    if r.get('status') == 'ok':
      rows = [json.dumps(x, sort_keys=True) for x in r.get('rows', [])]
      if p not in item['ordered']:
        rows.sort()
      preds[p] = ['ok', r.get('columns'), rows]
    else:
      preds[p] = [r.get('status'), r.get('cls'), r.get('stage')]
  out['preds'] = preds
  return hashlib.sha1(json.dumps(out, sort_keys=True).encode()).hexdigest()[:16]


def RunCorpus(repo, baseline, out, cover):
  os.environ['LOGICA_REPO'] = repo
  os.environ.setdefault('PYTHONHASHSEED', '0')
  from harness import impl
  items = json.load(open(os.path.join(MUT, 'corpus.json')))
  base = json.load(open(baseline)) if baseline else None
  lines = {}
  if cover:
    mon = sys.monitoring
    tool = mon.COVERAGE_ID
    mon.use_tool_id(tool, 'mutbattery')
    wanted = {os.path.join(repo, t) for t in TARGETS}

    def OnLine(code, line):
      if code.co_filename in wanted:
        lines.setdefault(code.co_filename, set()).add(line)
      return mon.DISABLE
    mon.register_callback(tool, mon.events.LINE, OnLine)
    mon.set_events(tool, mon.events.LINE)
  digests = {}
  for it in items:
    run = impl.RunWorkflow if it['workflow'] else impl.RunProgram
    try:
      res = run(it['text'], it['query'])
    except BaseException as e:  # pylint: disable=broad-except
      if isinstance(e, KeyboardInterrupt):
        raise
      res = {'status': 'internal', 'cls': type(e).__name__, 'preds': {}}
    d = Digest(it, res)
    digests[it['id']] = d
    if base is not None and base.get(it['id']) != d:
      print('DIFF', it['id'], flush=True)
      return 1
  if out:
    json.dump(digests, open(out, 'w'))
  if cover:
    json.dump({os.path.relpath(f, repo): sorted(v) for f, v in lines.items()},
              open(cover, 'w'))
  print('SAME' if base is not None else 'DONE', len(digests), flush=True)
  return 0


# ---- mutation sites --------------------------------------------------------------

CMP = {ast.Eq: ast.NotEq, ast.NotEq: ast.Eq, ast.Lt: ast.LtE, ast.LtE: ast.Lt,
       ast.Gt: ast.GtE, ast.GtE: ast.Gt, ast.In: ast.NotIn, ast.NotIn: ast.In,
       ast.Is: ast.IsNot, ast.IsNot: ast.Is}


class Mutator(ast.NodeTransformer):
  """Applies the k-th applicable mutation (k = self.target); counts sites."""

  def __init__(self, target=None, covered=None):
    self.n = 0
    self.target = target
    self.covered = covered
    self.info = None
    self.func = []

  def Site(self, node, what):
    if self.covered is not None and getattr(node, 'lineno', None) not in self.covered:
      return False
    k = self.n
    self.n += 1
    if self.target is None:
      self.sites.append({'k': k, 'line': node.lineno, 'what': what,
                         'func': '.'.join(self.func)})
      return False
    if k == self.target:
      self.info = {'line': node.lineno, 'what': what, 'func': '.'.join(self.func)}
      return True
    return False

  sites = None

  def visit_FunctionDef(self, node):
    self.func.append(node.name)
    self.generic_visit(node)
    self.func.pop()
    return node

  def visit_ClassDef(self, node):
    self.func.append(node.name)
    self.generic_visit(node)
    self.func.pop()
    return node

  def visit_Compare(self, node):
    self.generic_visit(node)
    for i, op in enumerate(node.ops):
      if type(op) in CMP and self.Site(node, 'cmp %s->%s' % (type(op).__name__, CMP[type(op)].__name__)):
        node.ops[i] = CMP[type(op)]()
    return node

  def visit_BoolOp(self, node):
    self.generic_visit(node)
    if self.Site(node, 'bool %s' % type(node.op).__name__):
      node.op = ast.Or() if isinstance(node.op, ast.And) else ast.And()
    return node

  def visit_UnaryOp(self, node):
    self.generic_visit(node)
    if isinstance(node.op, ast.Not) and self.Site(node, 'drop not'):
      return node.operand
    return node

  def _Test(self, node):
    if self.Site(node, 'negate %s test' % type(node).__name__):
      node.test = ast.UnaryOp(op=ast.Not(), operand=node.test)
    return node

  def visit_If(self, node):
    self.generic_visit(node)
    return self._Test(node)

  def visit_IfExp(self, node):
    self.generic_visit(node)
    return self._Test(node)

  def visit_While(self, node):
    self.generic_visit(node)
    return node

  def visit_Constant(self, node):
    v = node.value
    if v is True or v is False:
      if self.Site(node, 'const %r' % v):
        return ast.copy_location(ast.Constant(value=not v), node)
    elif isinstance(v, int):
      if self.Site(node, 'const %r+1' % v):
        return ast.copy_location(ast.Constant(value=v + 1), node)
    return node

  def visit_BinOp(self, node):
    self.generic_visit(node)
    if isinstance(node.op, (ast.Add, ast.Sub)) and not (
        isinstance(node.left, ast.Constant) and isinstance(node.left.value, str)):
      if self.Site(node, 'binop %s' % type(node.op).__name__):
        node.op = ast.Sub() if isinstance(node.op, ast.Add) else ast.Add()
    return node

  def _Stmt(self, node, what):
    if self.Site(node, what):
      return ast.copy_location(ast.Pass(), node)
    return node

  def visit_Expr(self, node):
    self.generic_visit(node)
    if isinstance(node.value, ast.Call):
      return self._Stmt(node, 'delete call statement')
    return node

  def visit_Assign(self, node):
    self.generic_visit(node)
    # deleting a subscript / attribute update (a plain name would just raise)
    if all(isinstance(t, (ast.Subscript, ast.Attribute)) for t in node.targets):
      return self._Stmt(node, 'delete update')
    return node

  def visit_AugAssign(self, node):
    self.generic_visit(node)
    return self._Stmt(node, 'delete augmented assignment')

  def visit_Continue(self, node):
    return self._Stmt(node, 'delete continue')

  def visit_Break(self, node):
    return self._Stmt(node, 'delete break')


def Sites(repo):
  cover = json.load(open(os.path.join(MUT, 'cover.json')))
  out = []
  for t in TARGETS:
    src = open(os.path.join(repo, t)).read()
    m = Mutator(None, set(cover.get(t, [])))
    m.sites = []
    m.visit(ast.parse(src))
    for s in m.sites:
      s['file'] = t
    out += m.sites
    print(t, len(m.sites), 'sites on', len(cover.get(t, [])), 'covered lines')
  json.dump(out, open(os.path.join(MUT, 'sites.json'), 'w'))
  print('sites:', len(out))


def MutatedSource(repo, site):
  cover = json.load(open(os.path.join(MUT, 'cover.json')))
  src = open(os.path.join(repo, site['file'])).read()
  m = Mutator(site['k'], set(cover.get(site['file'], [])))
  tree = m.visit(ast.parse(src))
  ast.fix_missing_locations(tree)
  assert m.info and m.info['line'] == site['line'], (m.info, site)
  return ast.unparse(tree)


# ---- mutant runs ---------------------------------------------------------------------

def Worker(args):
  wid, sites, repo = args
  scratch = '/tmp/mutbat_%d_%d' % (os.getpid(), wid)
  shutil.rmtree(scratch, ignore_errors=True)
  subprocess.run(['rsync', '-a', '--exclude', '.git', repo + '/', scratch + '/'], check=True)
  results = []
  env = dict(os.environ, PYTHONDONTWRITEBYTECODE='1',
             VERIF_BUILD_DIR=os.path.join(MUT, 'w%d' % wid))
  out_path = os.path.join(MUT, 'results_w%d.jsonl' % wid)
  with open(out_path, 'a') as out:
    for site in sites:
      path = os.path.join(scratch, site['file'])
      orig = open(path).read()
      t0 = time.time()
      try:
        open(path, 'w').write(MutatedSource(repo, site))
        try:
          r = subprocess.run([sys.executable, os.path.abspath(__file__), 'run', scratch,
                              '--baseline', os.path.join(MUT, 'baseline.json')],
                             capture_output=True, text=True, timeout=1500, env=env)
          last = (r.stdout.strip().splitlines() or ['?'])[-1]
          if last.startswith('DIFF'):
            verdict, detail = 'killed', last[5:]
          elif last.startswith('SAME'):
            verdict, detail = 'survived', ''
          else:
            verdict, detail = 'killed', 'crash: ' + (r.stderr.strip().splitlines() or ['?'])[-1][:200]
        except subprocess.TimeoutExpired:
          verdict, detail = 'killed', 'timeout'
        tests = ''
        if verdict == 'survived':
          t = subprocess.run('cd %s && /venv/bin/python -m pytest -q -p no:cacheprovider '
                             '--timeout=900 --continue-on-collection-errors 2>&1 | tail -1' % scratch,
                             shell=True, capture_output=True, text=True, env=env)
          tests = t.stdout.strip()
          subprocess.run('rm -f %s/logica.db' % scratch, shell=True)
      finally:
        open(path, 'w').write(orig)
      rec = dict(site, verdict=verdict, detail=detail, tests=tests,
                 secs=round(time.time() - t0, 1))
      out.write(json.dumps(rec) + '\n')
      out.flush()
      results.append(rec)
  shutil.rmtree(scratch, ignore_errors=True)
  return results


def Mutate(workers, limit, files, repo, seed):
  import multiprocessing as mp
  sites = json.load(open(os.path.join(MUT, 'sites.json')))
  if files:
    sites = [s for s in sites if s['file'] in files.split(',')]
  done = set()
  for f in os.listdir(MUT):
    if f.startswith('results_w'):
      for l in open(os.path.join(MUT, f)):
        r = json.loads(l)
        done.add((r['file'], r['k']))
  sites = [s for s in sites if (s['file'], s['k']) not in done]
  random.Random(seed).shuffle(sites)
  if limit:
    sites = sites[:limit]
  print('mutants to run:', len(sites), flush=True)
  chunks = [(w, sites[w::workers], repo) for w in range(workers)]
  with mp.get_context('fork').Pool(workers) as pool:
    res = pool.map(Worker, chunks)
  flat = [r for rs in res for r in rs]
  print('killed', sum(r['verdict'] == 'killed' for r in flat),
        'survived', sum(r['verdict'] == 'survived' for r in flat))


def main():
  ap = argparse.ArgumentParser()
  ap.add_argument('cmd')
  ap.add_argument('repo', nargs='?', default='/repo')
  ap.add_argument('--per', type=int, default=40)
  ap.add_argument('--baseline', default='')
  ap.add_argument('--out', default='')
  ap.add_argument('--cover', default='')
  ap.add_argument('--workers', type=int, default=8)
  ap.add_argument('--limit', type=int, default=0)
  ap.add_argument('--files', default='')
  ap.add_argument('--seed', type=int, default=1)
  a = ap.parse_args()
  if a.cmd == 'build':
    Build(a.per)
  elif a.cmd == 'run':
    sys.exit(RunCorpus(a.repo, a.baseline, a.out, a.cover))
  elif a.cmd == 'sites':
    Sites(a.repo)
  elif a.cmd == 'mutate':
    Mutate(a.workers, a.limit, a.files, a.repo, a.seed)


if __name__ == '__main__':
  main()
