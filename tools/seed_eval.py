#!/venv/bin/python
"""Evaluates the seeded changes delivered under /tmp/seedwork_<PROP>/change_k:
confirms each (tests pass, demo fails with / passes without the change), runs
the given checks against it and files it under /verif/seeded/<PROP>-<k>/.

  tools/seed_eval.py <PROP> [--checks C08,C01] [--n N] [--only k]"""
import argparse, glob, json, os, shutil, subprocess, sys
VERIF = '/verif'
ap = argparse.ArgumentParser()
ap.add_argument('prop')
ap.add_argument('--checks', default='')
ap.add_argument('--n', default='')
ap.add_argument('--only', default='')
ap.add_argument('--seed', default='')
ap.add_argument('--src', default='')
ap.add_argument('--offset', type=int, default=0)
a = ap.parse_args()
checks = a.checks.split(',') if a.checks else [a.prop]
src = a.src or '/tmp/seedwork_%s' % a.prop
for d in sorted(glob.glob(src + '/change_*')):
  k = d.rsplit('_', 1)[1]
  if a.only and k != a.only:
    continue
  demo = [f for f in ('demo.py', 'demo.sh') if os.path.exists(os.path.join(d, f))][0]
  cmd = [os.path.join(VERIF, 'tools/try_patch.py'), os.path.join(d, 'patch.diff')] + checks
  if demo.endswith('.py'):
    cmd += ['--demo', os.path.join(d, demo)]
  if a.n:
    cmd += ['--n', a.n]
  if a.seed:
    cmd += ['--seed', a.seed]
  r = subprocess.run(cmd, capture_output=True, text=True)
  line = [l for l in r.stdout.splitlines() if l.startswith('RESULT ')]
  res = json.loads(line[0][7:]) if line else {'error': r.stdout[-2000:] + r.stderr[-2000:]}
  out = os.path.join(VERIF, 'seeded', '%s-%s' % (a.prop, int(k) + a.offset))
  os.makedirs(out, exist_ok=True)
  for f in ('patch.diff', demo):
    shutil.copy(os.path.join(d, f), out)
  for extra in glob.glob(src + '/demo_common.py'):
    shutil.copy(extra, out)
  meta = json.load(open(os.path.join(d, 'meta.json'))) if os.path.exists(os.path.join(d, 'meta.json')) else {}
  meta.setdefault('property', a.prop)
  prev = {}
  if os.path.exists(os.path.join(out, 'meta.json')):
    prev = json.load(open(os.path.join(out, 'meta.json'))).get('what_i_ran', {})
  prev.update({'cmd': ' '.join(cmd), 'pytest': res.get('pytest'),
               'demo_rc_with_change': res.get('demo_rc_patched'),
               'demo_rc_without_change': res.get('demo_rc_clean')})
  prev.setdefault('checks', {}).update(res.get('checks', {}))
  meta['what_i_ran'] = prev
  meta['detected_by'] = sorted(c for c, v in prev['checks'].items() if v.get('violations'))
  json.dump(meta, open(os.path.join(out, 'meta.json'), 'w'), indent=1)
  print(a.prop, k, 'pytest:', res.get('pytest'), 'demo with/without:', res.get('demo_rc_patched'), res.get('demo_rc_clean'),
        {c: v.get('violations') for c, v in res.get('checks', {}).items()}, res.get('error', '')[:500])
