#!/usr/bin/env python3
"""Prints a markdown table of /verif/seeded/*/meta.json (which check catches which seeded change)."""
import glob, json, os
rows = []
for d in sorted(glob.glob('/verif/seeded/*')):
  mp = os.path.join(d, 'meta.json')
  if not os.path.exists(mp):
    continue
  m = json.load(open(mp))
  ran = m.get('what_i_ran', {})
  checks = ran.get('checks', {})
  det = ', '.join('%s (%d)' % (c, v.get('violations', 0)) for c, v in sorted(checks.items()) if v.get('violations'))
  missed = ', '.join(c for c, v in sorted(checks.items()) if not v.get('violations'))
  summ = (m.get('summary') or '').replace('\n', ' ').replace('|', '/')
  if len(summ) > 150:
    summ = summ[:147] + '...'
  need = (m.get('needs_to_manifest') or '').replace('\n', ' ').replace('|', '/')
  if len(need) > 120:
    need = need[:117] + '...'
  rows.append('| %s | %s | %s | %s | %s | %s/%s |' % (
      os.path.basename(d), summ, need, det or '-', missed or '-',
      ran.get('demo_rc_with_change'), ran.get('demo_rc_without_change')))
print('| seeded change | what it changes | needs to manifest | caught by (violations) | not caught by | demo rc with/without |')
print('|---|---|---|---|---|---|')
print('\n'.join(rows))
