#!/venv/bin/python
"""usage: tools/show_replays.py <PROP> [n] -- groups replay files by signature and prints one example each."""
import json, glob, sys, collections, re
prop=sys.argv[1]; n=int(sys.argv[2]) if len(sys.argv)>2 else 1
groups=collections.defaultdict(list)
for f in sorted(glob.glob('/verif/build/replay/%s/*.json'%prop)):
  r=json.load(open(f)); d=r['detail'] if isinstance(r['detail'],dict) else {}
  key=(r['kind'], d.get('cls'), re.sub(r'\x1b\[[0-9;]*m','',(d.get('msg') or ''))[:80])
  groups[key].append((f,r))
for key,items in groups.items():
  print('=====',key,len(items))
  for f,r in items[:n]:
    print(f); print(r['text']); d=r['detail']
    if r['kind']=='rows_differ':
      print('PRED',r['pred']); print(' expected',json.dumps(d['expected'])[:700]); print(' observed',json.dumps(d['observed'])[:700])
    else: print(' ', re.sub(r'\x1b\[[0-9;]*m','',(d.get('msg') or ''))[:500])
