#!/venv/bin/python
import json,glob,sys
for f in sorted(glob.glob('/verif/build/replay/%s/*.json'%sys.argv[1])):
  r=json.load(open(f))
  d=r['detail']
  print(f.split('/')[-1], r['pred'], r['kind'], r['signature'].get('explained_by'), r['signature'].get('msg_head')); 
  for l in r['text'].splitlines():
    if not l.startswith('@'): print('   ',l[:500])
  if r['kind']=='rows_differ':
    print('  E',json.dumps(d['expected'])[:500]); print('  O',json.dumps(d['observed'])[:500])
  else: print(d.get('msg','')[:400])
