#!/bin/sh
# usage: tools/tlc_reason.sh <ndjson shard>   -- prints the TLC error reason for a trace shard
cd /verif/spec && TRACE_FILE=$1 java -Xss256m -cp /opt/veriftools/tla/tla2tools.jar:/opt/veriftools/tla/CommunityModules-deps.jar tlc2.TLC -workers 1 -config ${2:-LSemTrace}.cfg -metadir /verif/build/tlc/dbg$$ -noGenerateSpecTE -deadlock ${2:-LSemTrace} 2>&1 | grep -v '^<<"V"' | grep -v "^[0-9]*\. Line" | grep -v "^State \|^i = \|^$" | sed -n '/Error/,$p' | head -${3:-40}; rm -rf /verif/build/tlc/dbg$$
