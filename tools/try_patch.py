#!/venv/bin/python
"""Runs checks against a patched scratch copy of /repo.

  tools/try_patch.py <patch.diff | mutation-id> <PROP> [<PROP> ...] [--tier quick] [--keep] [--n N]

Creates a git worktree of /repo's HEAD under /tmp, applies the patch (or a
mutation from selftest/catalogue.json), verifies that the pinned tests still
pass there (40 passed / 13 known failures), runs each check with
LOGICA_REPO=<copy>, reports whether a VIOLATION was raised, removes the copy."""
import argparse
import json
import os
import re
import subprocess
import sys
import tempfile

VERIF = os.path.dirname(os.path.dirname(os.path.abspath(__file__)))


def Sh(cmd, **kw):
  return subprocess.run(cmd, shell=True, capture_output=True, text=True, **kw)


def main():
  ap = argparse.ArgumentParser()
  ap.add_argument('patch')
  ap.add_argument('props', nargs='+')
  ap.add_argument('--tier', default='quick')
  ap.add_argument('--keep', action='store_true')
  ap.add_argument('--n', default='')
  ap.add_argument('--seed', default='')
  ap.add_argument('--demo', default='')
  ap.add_argument('--base', default='c3922b2')
  args = ap.parse_args()
  d = tempfile.mkdtemp(prefix='lgc_try_', dir='/tmp')
  os.rmdir(d)
  r = Sh('git -C /repo worktree add -q --detach %s HEAD' % d)
  if r.returncode:
    print('worktree failed', r.stderr)
    return 2
  result = {'patch': args.patch, 'copy': d, 'checks': {}}
  try:
    if os.path.exists(args.patch):
      r = Sh('git -C %s apply %s' % (d, os.path.abspath(args.patch)))
      if r.returncode:
        # written against an earlier commit of /repo (before a later fix:
        # commit touched the same lines): evaluate it on that commit
        Sh('git -C /repo worktree remove --force %s' % d)
        Sh('git -C /repo worktree add -q --detach %s %s' % (d, args.base))
        r = Sh('git -C %s apply %s' % (d, os.path.abspath(args.patch)))
        result['base'] = args.base
        if r.returncode:
          print('patch does not apply:', r.stderr)
          return 2
    else:
      cat = json.load(open(os.path.join(VERIF, 'selftest', 'catalogue.json')))
      m = [x for x in cat if x['id'] == args.patch][0]
      path = os.path.join(d, m['file'])
      s = open(path).read()
      if s.count(m['old']) != 1:
        print('mutation anchor not unique/found:', m['id'], s.count(m['old']))
        return 2
      open(path, 'w').write(s.replace(m['old'], m['new']))
    t = Sh('cd %s && /venv/bin/python -m pytest -q -p no:cacheprovider '
           '--timeout=900 --continue-on-collection-errors 2>&1 | tail -1' % d)
    result['pytest'] = t.stdout.strip()
    print('pytest:', result['pytest'])
    if args.demo:
      dm = Sh('/venv/bin/python %s %s' % (args.demo, d))
      result['demo_rc_patched'] = dm.returncode
      dc = Sh('/venv/bin/python %s /repo' % args.demo)
      result['demo_rc_clean'] = dc.returncode
      print('demo: patched rc=%d clean rc=%d' % (dm.returncode, dc.returncode))
    for p in args.props:
      env = dict(os.environ, LOGICA_REPO=d,
                 VERIF_BUILD_DIR=os.path.join(VERIF, 'build', 'alt_' +
                                              os.path.basename(d)),
                 VERIF_EVIDENCE_DIR=os.path.join(VERIF, 'build',
                                                 'selftest_evidence'))
      if args.n:
        env['VERIF_N'] = args.n
      if args.seed:
        env['VERIF_SEED'] = args.seed
      c = subprocess.run([os.path.join(VERIF, 'check'), p, '--tier', args.tier],
                         capture_output=True, text=True, env=env, cwd=VERIF)
      viol = [l for l in c.stdout.splitlines() if l.startswith('VIOLATION')]
      result['checks'][p] = {'rc': c.returncode, 'violations': len(viol),
                             'first': viol[:2],
                             'tail': c.stdout.strip().splitlines()[-1:]}
      print('%s: rc=%d violations=%d %s' % (p, c.returncode, len(viol),
                                            c.stdout.strip().splitlines()[-1:]))
      if c.returncode == 2:
        print(c.stdout[-1500:], c.stderr[-1500:])
    print('RESULT ' + json.dumps(result))
  finally:
    if not args.keep:
      Sh('git -C /repo worktree remove --force %s' % d)
      Sh('rm -rf %s' % d)
      Sh('rm -rf %s' % os.path.join(VERIF, 'build', 'alt_' + os.path.basename(d)))
  return 0


if __name__ == '__main__':
  sys.exit(main())
