#!/usr/bin/env python3
"""Puts the output of tools/seed_table.py between the SEEDED_TABLE markers of DESIGN.md."""
import re, subprocess
table = subprocess.run(['python3', '/verif/tools/seed_table.py'], capture_output=True, text=True).stdout
s = open('/verif/DESIGN.md').read()
block = '<!-- SEEDED_TABLE_BEGIN -->\n' + table + '<!-- SEEDED_TABLE_END -->'
if 'SEEDED_TABLE_PLACEHOLDER' in s:
  s = s.replace('SEEDED_TABLE_PLACEHOLDER', block)
else:
  s = re.sub(r'<!-- SEEDED_TABLE_BEGIN -->.*<!-- SEEDED_TABLE_END -->', lambda m: block, s, flags=re.S)
open('/verif/DESIGN.md', 'w').write(s)
print(table.count('\n'), 'rows')
